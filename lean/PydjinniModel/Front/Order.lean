import PydjinniModel.Front.Imports
import PydjinniModel.Front.Spec
/-!
The order in which the files of a multi-file program are *finished* (own declarations registered, references bound,
rules checked), computed directly from the import graph — independently of the registry bookkeeping, the diagnostics
and the state threading of `Imports.lean`. The declarative specification (`regUpTo`, `violationsOrdered` of
`Spec.lean`) reads a program in this order; `Props/C16Order.lean` proves that `parseOne` finishes files in exactly
this order. Import-free.

* `finishOrder`      a plain depth-first search over `@import` lines (search order of `findFile`): the files a file
                     imports — first visit, textual order — before the file itself
* `programInOrder`   the program reachable from a root file, its files in finish order
* `loadOrder`        the same search, also recording where an `@extern` line loads a (valid) external type file:
                     the sequence of *registration events* of a run
-/
namespace Pydjinni.Front

/-- the order in which the files of a program are finished: the files a file imports (first visit, textual order,
    found by the search order of `findFile`) before the file itself. `(visited, finished)`. -/
def finishOrder (cfg : Cfg) (fs : FS) : Nat → APath → APath → List APath × List APath → List APath × List APath
  | 0, _, _, acc => acc
  | fuel + 1, file, spelled, (visited, done) =>
    match fs.get file with
    | some (.idl text) =>
      match parseText text with
      | none => (visited, done)
      | some f =>
        let (visited, done) := f.loads.foldl (fun (acc : List APath × List APath) l =>
          if !l.isImport then acc else
          match findFile cfg fs spelled (filepathText l.lit) with
          | some (c, p) => if acc.1.contains p then acc else finishOrder cfg fs fuel p c.path (acc.1 ++ [p], acc.2)
          | none => acc) (visited, done)
        (visited, done ++ [file])
    | _ => (visited, done)

/-- the files of `order` as a program (contents as parsed); `none` if some file is outside the grammar -/
def progFilesOf (fs : FS) (order : List APath) : Option (List ProgFile) :=
  order.foldr (fun p acc =>
    match fs.get p, acc with
    | some (FileContent.idl text), some l =>
      match parseText text with
      | some f => some ({ file := showPath p, contents := f.contents } :: l)
      | none => none
    | some (FileContent.idl _), none => none
    | _, acc => acc) (some [])

/-- the files reachable from `root` by `@import`, in finish order (the fuel of `front`) -/
def rootOrder (cfg : Cfg) (fs : FS) (root : APath) : List APath :=
  (finishOrder cfg fs (fs.files.length + 2) (normPath root) root ([normPath root], [])).2

/-- the program reachable from `root`, its files in finish order; `none` if some file is outside the grammar -/
def programInOrder (cfg : Cfg) (fs : List (APath × FileContent)) (root : APath) : Option (List ProgFile) :=
  progFilesOf { files := fs } (rootOrder cfg { files := fs } root)

/-! ### registration events -/

/-- something is added to the type registry -/
inductive LoadEvent
  | finished (file : APath)     -- an IDL file's own declarations, when the file is finished
  | extern (file : APath)       -- the definitions of an external type file, at the `@extern` line that loads it
deriving Repr, DecidableEq, Inhabited

abbrev OrderAcc := List APath × List LoadEvent

/-- one `@import`/`@extern` line of a file spelled `spelled`; `rec` visits an imported file -/
def loadStep (cfg : Cfg) (fs : FS) (rec : APath → APath → OrderAcc → OrderAcc) (spelled : APath)
    (acc : OrderAcc) (l : LoadAt) : OrderAcc :=
  match findFile cfg fs spelled (filepathText l.lit) with
  | none => acc
  | some (c, p) =>
    if l.isImport then (if acc.1.contains p then acc else rec p c.path (acc.1 ++ [p], acc.2))
    else
      match fs.get p with
      | some (.ext _) => (acc.1, acc.2 ++ [.extern p])
      | _ => acc

/-- `finishOrder` with the `@extern` lines: `(visited, events)` -/
def loadOrder (cfg : Cfg) (fs : FS) : Nat → APath → APath → OrderAcc → OrderAcc
  | 0, _, _, acc => acc
  | fuel + 1, file, spelled, acc =>
    match fs.get file with
    | some (.idl text) =>
      match parseText text with
      | none => acc
      | some f =>
        let acc' := f.loads.foldl (loadStep cfg fs (loadOrder cfg fs fuel) spelled) acc
        (acc'.1, acc'.2 ++ [.finished file])
    | _ => acc

/-- the registration events of a run from `root`, in order -/
def rootEvents (cfg : Cfg) (fs : FS) (root : APath) : List LoadEvent :=
  (loadOrder cfg fs (fs.files.length + 2) (normPath root) root ([normPath root], [])).2

def LoadEvent.file? : LoadEvent → Option APath
  | .finished p => some p
  | .extern _ => none

/-- the registry entries of a file's declarations, in textual order (namespaces flattened) -/
def declDefs (contents : List Content) : List Def :=
  (declsOfContents [] contents).map (fun x => { key := declKey x.1 x.2, prim := declPrim x.2, arity := 0 })

/-- the registry entries an IDL file contributes when it is finished -/
def fileDefs (fs : FS) (p : APath) : List Def :=
  match fs.get p with
  | some (.idl text) =>
    match parseText text with
    | some f => declDefs f.contents
    | none => []
  | _ => []

def extDefs (defs : List ExtDef) : List Def := defs.map (fun d => { key := d.key, prim := d.prim, arity := d.arity })

/-- what a registration event adds to the registry -/
def evDefs (fs : FS) : LoadEvent → List Def
  | .finished p => fileDefs fs p
  | .extern p =>
    match fs.get p with
    | some (.ext defs) => extDefs defs
    | _ => []

end Pydjinni.Front
