import PydjinniModel.Front.Parser
import PydjinniModel.Front.Targets
/-!
Semantic layer of the front end for ONE file: what `Parser`'s visitor collects while walking the
parse tree (registrations, type references, checkable units, visit-time diagnostics), the type
registry with `Resolver.register/resolve`, the deferred resolution loop and the post-resolution
rule checks. Import-free. The multi-file composition (imports, externs) is in `Imports.lean`.

Python `None` dereferences are explicit: `deref` fails with a crash site, and the loops below are
written in `Except String` so that "never an internal error" is a statement one has to prove.
-/
namespace Pydjinni.Front

inductive Prim | primitive | collection | interface | record | enum | flags | function | error
deriving DecidableEq, Repr, Inhabited

structure Def where
  key : String          -- registry key: dotted qualified name (`".".join(namespace + [name])`)
  prim : Prim
  arity : Nat           -- `len(type_def.params)`
deriving Repr, DecidableEq, Inhabited

abbrev Registry := List Def

def Registry.get (r : Registry) (k : String) : Option Def := r.find? (fun d => d.key == k)

def regKey (ns : List String) (name : String) : String := ".".intercalate (ns ++ [name])

/-- `Resolver.resolve`, relative branch: try `ns ++ [name]`, pop the innermost component, …,
    finally the root. `nsRev` is the namespace innermost-first. -/
def resolveRel (r : Registry) (name : String) : List String → Option Def
  | [] => r.get (regKey [] name)
  | n :: rest =>
    match r.get (regKey (n :: rest).reverse name) with
    | some d => some d
    | none => resolveRel r name rest

/-- `Resolver.resolve` -/
def resolve (r : Registry) (ns : List String) (name : String) : Option Def :=
  if name.startsWith "." then r.get (name.drop 1).toString else resolveRel r name ns.reverse

structure Diag where
  cls : String      -- exception class (`ParsingException`, `TypeResolvingException`, …)
  rule : String     -- the model's name for the rule (an annotation; never compared with wording)
  file : String
  pos : Pos
deriving Repr, DecidableEq, Inhabited

/-- a `dataType` occurrence appended to `Parser.type_refs` -/
structure RefSite where
  name : String
  ns : List String
  nargs : Nat
  file : String
  pos : Pos
deriving Repr, DecidableEq, Inhabited

/-- one signature to post-check -/
structure SigU where
  params : List TypeRef
  ret : Option TypeRef
  throwing : Option (List TypeRef)
deriving Repr, Inhabited

/-- an entry of `Parser.type_decls`, reduced to what the post-checks read -/
inductive CheckUnit
  | record (fields : List (Pos × TypeRef)) (ord : Bool)
  | iface (methods : List SigU)
  | fn (sig : SigU)
  | other
deriving Repr, Inhabited

structure UnitAt where
  file : String
  ns : List String
  unit : CheckUnit
deriving Repr, Inhabited

structure RegSite where
  key : String
  prim : Prim
  arity : Nat := 0
  file : String
  pos : Pos
deriving Repr, Inhabited

/-- everything the visitor accumulates over one file's `namespaceContent*` -/
structure Collected where
  diags : List Diag := []
  regs : List RegSite := []       -- `resolver.register` calls, in visit order
  refs : List RefSite := []       -- `self.type_refs`
  units : List UnitAt := []       -- `self.type_decls`
deriving Repr, Inhabited

def Collected.append (a b : Collected) : Collected :=
  { diags := a.diags ++ b.diags, regs := a.regs ++ b.regs, refs := a.refs ++ b.refs, units := a.units ++ b.units }
instance : Append Collected := ⟨Collected.append⟩

/-- per-file constants of a visit -/
structure Env where
  file : String
  keys : List String              -- supported target keys
  defaultDeriving : List String   -- `generate.default_deriving`
deriving Repr, Inhabited

def targetDiags (e : Env) (flags : List String) (pos : Pos) : List Diag :=
  (evalTargets e.keys flags).filterMap fun t =>
    if e.keys.contains t then none else some { cls := "ParsingException", rule := "unknown-target", file := e.file, pos := pos }

def posOf : TypeRef → Pos | .data _ _ _ p => p | .fn _ p => p
def isFn : TypeRef → Bool | .fn .. => true | _ => false
def paramType : Param → TypeRef | .mk _ t _ => t

mutual
/-- `visitTypeRef` / `visitDataType`: nested generic arguments are visited (and appended) before
    the reference itself; an inline function is appended to `type_decls` -/
def walkT (e : Env) (ns : List String) : TypeRef → Collected
  | .data name args _ pos =>
    walkTs e ns args ++ { refs := [{ name := name, ns := ns, nargs := args.length, file := e.file, pos := pos }] }
  | .fn sig _ => walkF e ns sig
def walkTs (e : Env) (ns : List String) : List TypeRef → Collected
  | [] => {}
  | t :: ts => walkT e ns t ++ walkTs e ns ts
def walkOT (e : Env) (ns : List String) : Option TypeRef → Collected
  | none => {}
  | some t => walkT e ns t
def walkOTs (e : Env) (ns : List String) : Option (List TypeRef) → Collected
  | none => {}
  | some ts => walkTs e ns ts
def walkPs (e : Env) (ns : List String) : List Param → Collected
  | [] => {}
  | .mk _ t _ :: ps => walkT e ns t ++ walkPs e ns ps
/-- `visitFunction`: targets, return type, parameters, throwing (in that order) -/
def walkF (e : Env) (ns : List String) : FnSig → Collected
  | .mk flags fpos params thr ret =>
    (match flags with | some f => ({ diags := targetDiags e f fpos } : Collected) | none => {})
    ++ walkOT e ns ret ++ walkPs e ns params ++ walkOTs e ns thr
    ++ { units := [{ file := e.file, ns := ns, unit := .fn { params := params.map paramType, ret := ret, throwing := thr } }] }
end

def sigOfMethod (m : Method) : SigU := { params := m.params.map paramType, ret := m.ret, throwing := m.throwing }

/-- `visitMethod`: parameters, return type, throwing; then the static∧const rule -/
def walkMethod (e : Env) (ns : List String) (m : Method) : Collected :=
  walkPs e ns m.params ++ walkOT e ns m.ret ++ walkOTs e ns m.throwing
  ++ (if m.isStatic && m.isConst then
        { diags := [{ cls := "ParsingException", rule := "static-const", file := e.file, pos := m.pos }] } else {})

def walkMethods (e : Env) (ns : List String) : List Method → Collected
  | [] => {}
  | m :: ms => walkMethod e ns m ++ walkMethods e ns ms

def walkProps (e : Env) (ns : List String) : List Prop' → Collected
  | [] => {}
  | p :: ps => walkT e ns p.ty ++ walkProps e ns ps

def walkField (e : Env) (ns : List String) (f : Field) : Collected :=
  walkT e ns f.ty ++
  (if isFn f.ty then { diags := [{ cls := "ParsingException", rule := "fn-field", file := e.file, pos := posOf f.ty }] } else {})

def walkFields (e : Env) (ns : List String) : List Field → Collected
  | [] => {}
  | f :: fs => walkField e ns f ++ walkFields e ns fs

def walkCodes (e : Env) (ns : List String) : List ErrCode → Collected
  | [] => {}
  | c :: cs => walkPs e ns c.params ++ walkCodes e ns cs

def flagModDiags (e : Env) : List FlagItem → List Diag
  | [] => []
  | i :: is =>
    (match i.modifier with
      | some m => if m == "all" || m == "none" then [] else
          [{ cls := "ParsingException", rule := "flag-modifier", file := e.file, pos := i.modifierPos }]
      | none => []) ++ flagModDiags e is

def derivingDiags (e : Env) : List (String × Pos) → List Diag
  | [] => []
  | (d, p) :: ds =>
    (if d == "eq" || d == "ord" then [] else [{ cls := "ParsingException", rule := "deriving", file := e.file, pos := p }])
    ++ derivingDiags e ds

/-- the deriving set of a record: written names (valid ones) ∪ the configured default -/
def derivingOf (e : Env) (der : Option (List (String × Pos))) : List String :=
  match der with
  | some l => (l.map Prod.fst).filter (fun d => d == "eq" || d == "ord") ++ e.defaultDeriving
  | none => e.defaultDeriving

def staticDiags (e : Env) (cppOnly : Bool) : List Method → List Diag
  | [] => []
  | m :: ms =>
    (if !cppOnly && m.isStatic then [{ cls := "ParsingException", rule := "static-cpp", file := e.file, pos := m.pos }] else [])
    ++ staticDiags e cppOnly ms

def reg1 (e : Env) (ns : List String) (n : String) (p : Prim) (pos : Pos) (u : CheckUnit) : Collected :=
  { regs := [{ key := regKey ns n, prim := p, file := e.file, pos := pos }], units := [{ file := e.file, ns := ns, unit := u }] }

/-- `visitTypeDecl` for each declaration kind -/
def walkDecl (e : Env) (ns : List String) : Decl → Collected
  | .enum n _ _ pos => reg1 e ns n .enum pos .other
  | .flags n _ items pos => { diags := flagModDiags e items } ++ reg1 e ns n .flags pos .other
  | .record n _ flags fpos fields der pos =>
    walkFields e ns fields
    ++ { diags := (match der with | some l => derivingDiags e l | none => []) ++ targetDiags e flags fpos }
    ++ reg1 e ns n .record pos (.record (fields.map (fun f => (f.pos, f.ty))) ((derivingOf e der).contains "ord"))
  | .interface n _ main flags fpos methods props pos =>
    let cppOnly := targetsOrAll e.keys flags == ["cpp"]
    walkMethods e ns methods ++ walkProps e ns props
    ++ { diags := targetDiags e flags fpos
          ++ (if main && !cppOnly then [{ cls := "ParsingException", rule := "main-cpp", file := e.file, pos := pos }] else [])
          ++ staticDiags e cppOnly methods }
    ++ reg1 e ns n .interface pos (.iface (methods.map sigOfMethod))
  | .function n _ sig pos =>
    -- visitNamedFunction visits the function (which yields the unit) and renames it; the same
    -- object is then registered: one entry in `type_decls`
    let c := walkF e ns sig
    { c with regs := c.regs ++ [{ key := regKey ns n, prim := .function, file := e.file, pos := pos }] }
  | .error n _ codes pos => walkCodes e ns codes ++ reg1 e ns n .error pos .other

mutual
def walkContent (e : Env) (ns : List String) : Content → Collected
  | .decl d => walkDecl e ns d
  | .ns name _ children _ => walkContents e (ns ++ name.splitOn ".") children
def walkContents (e : Env) (ns : List String) : List Content → Collected
  | [] => {}
  | c :: cs => walkContent e ns c ++ walkContents e ns cs
end

/-! ### registry -/

/-- `Resolver.register` for a list of sites, in order; the first duplicate raises -/
def registerAll : Registry → List RegSite → Except RegSite Registry
  | r, [] => .ok r
  | r, s :: rest =>
    if (r.get s.key).isSome then .error s
    else registerAll (r ++ [{ key := s.key, prim := s.prim, arity := s.arity }]) rest

/-! ### deferred resolution and post-checks

`Resolved` remembers, for every data reference (identified by file and position), the definition
its `type_def` was set to the first time resolution succeeded: a later, more local declaration does
not change it, exactly as in the implementation. -/

abbrev Resolved := List ((String × Pos) × Def)

def Resolved.get (m : Resolved) (file : String) (pos : Pos) : Option Def :=
  (m.find? (fun e => e.1.1 == file && e.1.2 == pos)).map (·.2)

/-- Python `x.attr` on a possibly-`None` `type_def` -/
def deref (site : String) : Option Def → Except String Def
  | some d => .ok d
  | none => .error site

/-- one iteration of the `for type_ref in self.type_refs` loop (fixed code: `continue` when the
    reference stays unresolved) -/
def resolveStep (reg : Registry) (st : Resolved × List Diag) (r : RefSite) : Except String (Resolved × List Diag) :=
  let (m, ds) := st
  match m.get r.file r.pos with
  | some _ => .ok (m, ds)                       -- `if not type_ref.type_def` is false
  | none =>
    match resolve reg r.ns r.name with
    | none => .ok (m, ds ++ [{ cls := "TypeResolvingException", rule := "unknown-type", file := r.file, pos := r.pos }])
    | some d =>
      let m := m ++ [((r.file, r.pos), d)]
      if r.nargs > 0 && d.arity == 0 then
        .ok (m, ds ++ [{ cls := "ParsingException", rule := "no-generics", file := r.file, pos := r.pos }])
      else if r.nargs > 0 && d.arity != r.nargs then
        .ok (m, ds ++ [{ cls := "ParsingException", rule := "generic-arity", file := r.file, pos := r.pos }])
      else .ok (m, ds)

def resolveLoop (reg : Registry) : Resolved × List Diag → List RefSite → Except String (Resolved × List Diag)
  | st, [] => .ok st
  | st, r :: rs => do
    let st ← resolveStep reg st r
    resolveLoop reg st rs

/-- `type_ref.type_def.primitive` as an option: `none` = `type_def is None` -/
def primOf (m : Resolved) (file : String) : TypeRef → Option Prim
  | .data _ _ _ pos => (m.get file pos).map (·.prim)
  | .fn .. => some .function

def pdiag (rule file : String) (pos : Pos) : Diag := { cls := "ParsingException", rule := rule, file := file, pos := pos }

def checkFields (m : Resolved) (file : String) (ord : Bool) : List (Pos × TypeRef) → List Diag
  | [] => []
  | (fpos, t) :: fs =>
    let p := primOf m file t
    (if p == some .error then [pdiag "field-error" file (posOf t)]
     else if p == some .interface then [pdiag "field-interface" file (posOf t)] else [])
    ++ (if ord && p == some .collection then [pdiag "ord-collection" file fpos] else [])
    ++ checkFields m file ord fs

def checkParams (m : Resolved) (file : String) : List TypeRef → List Diag
  | [] => []
  | t :: ts => (if primOf m file t == some .error then [pdiag "param-error" file (posOf t)] else []) ++ checkParams m file ts

/-- the `throws` loop. Fixed code guards `type_ref.type_def and …`; the unguarded code crashed here. -/
def checkThrows (m : Resolved) (file : String) : List TypeRef → Except String (List Diag)
  | [] => .ok []
  | t :: ts => do
    let rest ← checkThrows m file ts
    match primOf m file t with
    | none => .ok rest                              -- guarded: unresolved, already reported
    | some p => .ok ((if p != .error then [pdiag "throws-non-error" file (posOf t)] else []) ++ rest)

def checkSig (m : Resolved) (file : String) (s : SigU) : Except String (List Diag) := do
  let r := match s.ret with
    | some t => if primOf m file t == some .error then [pdiag "return-error" file (posOf t)] else []
    | none => []
  let th ← match s.throwing with
    | some l => checkThrows m file l
    | none => .ok []
  .ok (r ++ th ++ checkParams m file s.params)

def checkSigs (m : Resolved) (file : String) : List SigU → Except String (List Diag)
  | [] => .ok []
  | s :: ss => do
    let a ← checkSig m file s
    let b ← checkSigs m file ss
    .ok (a ++ b)

def checkUnit (m : Resolved) (u : UnitAt) : Except String (List Diag) :=
  match u.unit with
  | .record fields ord => .ok (checkFields m u.file ord fields)
  | .iface ms => checkSigs m u.file ms
  | .fn s => checkSig m u.file s
  | .other => .ok []

def checkUnits (m : Resolved) : List UnitAt → Except String (List Diag)
  | [] => .ok []
  | u :: us => do
    let a ← checkUnit m u
    let b ← checkUnits m us
    .ok (a ++ b)

end Pydjinni.Front
