import PydjinniModel.Front.Ast
/-!
Recursive-descent model of the parser generated from `Idl.g4` (fuel-indexed, total).
The function-type sub-grammar is ambiguous; ANTLR's ALL(*) choice is modelled as an ordered
list-of-successes parser (`PL`) whose candidates are ordered by the chronological decision
sequence, and the first candidate after which the enclosing statement completes is taken.
-/
namespace Pydjinni.Front

abbrev P (α : Type) := List Token → Option (α × List Token)

def kw? (s : String) : List Token → Option (List Token)
  | t :: ts => if t.tk == .kw s then some ts else none
  | [] => none

def peekKw (s : String) : List Token → Bool
  | t :: _ => t.tk == .kw s
  | [] => false

def ident : P String
  | t :: ts => match t.tk with | .id s => some (s, ts) | _ => none
  | [] => none

def nsIdent : P String
  | t :: ts => match t.tk with | .id s => some (s, ts) | .nsid s => some (s, ts) | _ => none
  | [] => none

def comments : List Token → List String × List Token
  | t :: ts => match t.tk with
    | .comment s => let (cs, r) := comments ts; (s :: cs, r)
    | _ => ([], t :: ts)
  | [] => ([], [])

def targets : List Token → List String × List Token
  | t :: ts => match t.tk with
    | .target s => let (cs, r) := targets ts; (s :: cs, r)
    | _ => ([], t :: ts)
  | [] => ([], [])

/-- does a parameter (`ID ':'`) start here? -/
def startsParam : List Token → Bool
  | a :: b :: _ => (match a.tk with | .id _ => true | _ => false) && b.tk == .kw ":"
  | _ => false

def startsTypeRef : List Token → Bool
  | a :: _ => match a.tk with
    | .id _ => true | .nsid _ => true | .kw "function" => true | .kw "(" => true | _ => false
  | [] => false

/-- ordered list of successes: alternatives are tried in ANTLR's alternative order
    (loop-again before exit, enter-optional before skip); the accepted parse is the first that
    lets the enclosing statement complete. This mirrors ALL(*)'s "minimum viable alternative". -/
abbrev PL (α : Type) := List Token → List (α × List Token)

def PL.bind {α β} (p : PL α) (f : α → PL β) : PL β := fun ts => (p ts).flatMap (fun (a, r) => f a r)
def PL.pure {α} (a : α) : PL α := fun ts => [(a, ts)]
def PL.kw (s : String) : PL Unit := fun ts => match kw? s ts with | some r => [((), r)] | none => []
def PL.ofP {α} (p : P α) : PL α := fun ts => match p ts with | some x => [x] | none => []

mutual
/-- dataType : nsIdentifier (LT (dataType COMMA)* dataType GT)? OPTIONAL?   (deterministic) -/
def dataType : Nat → P TypeRef
  | 0, _ => none
  | fuel+1, ts0 => do
    let (name, ts) ← nsIdent ts0
    let (args, ts) ←
      if peekKw "<" ts then do
        let ts ← kw? "<" ts
        let (a, ts) ← dataType fuel ts
        let (as, ts) ← dataArgs fuel ts
        let ts ← kw? ">" ts
        pure (a :: as, ts)
      else pure ([], ts)
    if peekKw "?" ts then pure (.data name args true (spanPos ts0 ts.tail), ts.tail) else pure (.data name args false (spanPos ts0 ts), ts)
def dataArgs : Nat → P (List TypeRef)
  | 0, _ => none
  | fuel+1, ts =>
    if peekKw "," ts then do
      let (a, ts) ← dataType fuel ts.tail
      let (as, ts) ← dataArgs fuel ts
      pure (a :: as, ts)
    else pure ([], ts)
end

mutual
def typeRefL : Nat → PL TypeRef
  | 0, _ => []
  | fuel+1, ts =>
    if peekKw "function" ts || peekKw "(" ts then (functionL fuel ts).map (fun (f, r) => (.fn f (spanPos ts r), r))
    else match dataType (fuel+1) ts with | some x => [x] | none => []
def functionL : Nat → PL FnSig
  | 0, _ => []
  | fuel+1, ts =>
    let (flags, fpos, ts) := if peekKw "function" ts then (let (f, r) := targets ts.tail; (some f, spanPos ts.tail r, r)) else (none, default, ts)
    match kw? "(" ts with
    | none => []
    | some ts =>
      (paramListL fuel ts).flatMap fun (ps, ts) =>
        match kw? ")" ts with
        | none => []
        | some ts =>
          (throwingL fuel ts).flatMap fun (thr, ts) =>
            -- (ARROW typeRef)? : enter first, then skip
            (if peekKw "->" ts then (typeRefL fuel ts.tail).map (fun (r, ts) => (FnSig.mk flags fpos ps thr (some r), ts)) else [])
            ++ [(FnSig.mk flags fpos ps thr none, ts)]
/-- ((parameter COMMA)* parameter)? -/
def paramListL : Nat → PL (List Param)
  | 0, _ => []
  | fuel+1, ts =>
    (if startsParam ts then paramList1L fuel ts else []) ++ [([], ts)]
/-- (parameter COMMA)* parameter : loop-again first -/
def paramList1L : Nat → PL (List Param)
  | 0, _ => []
  | fuel+1, ts =>
    -- the loop-vs-final decision is taken *before* the element is parsed, so it has priority
    -- over the decisions inside the element: all loop candidates first, then all final candidates
    let elems := paramL fuel ts
    (elems.flatMap fun (p, ts) =>
      if peekKw "," ts then (paramList1L fuel ts.tail).map (fun (ps, r) => (p :: ps, r)) else [])
    ++ elems.map (fun (p, ts) => ([p], ts))
def paramL : Nat → PL Param
  | 0, _ => []
  | fuel+1, ts0 =>
    match ident ts0 with
    | none => []
    | some (n, ts) =>
      match kw? ":" ts with
      | none => []
      | some ts => (typeRefL fuel ts).map (fun (t, r) => (Param.mk n t (spanPos ts0 r), r))
/-- throwing? -/
def throwingL : Nat → PL (Option (List TypeRef))
  | 0, _ => []
  | fuel+1, ts =>
    if peekKw "throws" ts then
      ((throwList1L fuel ts.tail).map (fun (l, r) => (some l, r))) ++ [(some [], ts.tail)]
    else [(none, ts)]
/-- (typeRef COMMA)* typeRef : loop-again first -/
def throwList1L : Nat → PL (List TypeRef)
  | 0, _ => []
  | fuel+1, ts =>
    let elems := typeRefL fuel ts
    (elems.flatMap fun (t, ts) =>
      if peekKw "," ts then (throwList1L fuel ts.tail).map (fun (l, r) => (t :: l, r)) else [])
    ++ elems.map (fun (t, ts) => ([t], ts))
end

/-- first alternative after which `next` (the rest of the statement) succeeds -/
def firstThat {α β} (cands : List (α × List Token)) (next : α → List Token → Option β) : Option β :=
  cands.findSome? (fun (a, r) => next a r)

def many {α} (fuel : Nat) (stop : List Token → Bool) (p : P α) : Nat → P (List α)
  | 0, _ => none
  | n+1, ts =>
    if stop ts then some ([], ts)
    else do
      let (a, ts) ← p ts
      let (as, ts) ← many fuel stop p n ts
      pure (a :: as, ts)

def item : P Item := fun ts0 => do
  let (c, ts) := comments ts0
  let (n, ts) ← ident ts
  let ts ← kw? ";" ts
  pure ({ name := n, comment := c, pos := spanPos ts0 ts }, ts)

def flagItem : P FlagItem := fun ts0 => do
  let (c, ts) := comments ts0
  let (n, ts1) ← ident ts
  let (m, mp, ts) ← if peekKw "=" ts1 then do let (m, ts) ← ident ts1.tail; pure (some m, spanPos ts1 ts, ts) else pure (none, default, ts1)
  let ts ← kw? ";" ts
  pure ({ name := n, modifier := m, modifierPos := mp, comment := c, pos := spanPos ts0 ts }, ts)

def field (fuel : Nat) : P Field := fun ts0 => do
  let (c, ts) := comments ts0
  let (n, ts) ← ident ts
  let ts ← kw? ":" ts
  firstThat (typeRefL fuel ts) fun t ts => do
    let ts ← kw? ";" ts
    pure ({ name := n, ty := t, comment := c, pos := spanPos ts0 ts }, ts)

def derivingList : Nat → P (List (String × Pos))
  | 0, _ => none
  | n+1, ts0 => do
    let (d, ts) ← ident ts0
    let dp := spanPos ts0 ts
    if peekKw "," ts then do
      let (ds, ts) ← derivingList n ts.tail
      pure ((d, dp) :: ds, ts)
    else pure ([(d, dp)], ts)

/-- (parameter)* parameter)? inside an error code: juxtaposed parameters; loop-again first -/
def errParamsL (fuel : Nat) : Nat → PL (List Param)
  | 0, _ => []
  | n+1, ts =>
    (if startsParam ts then (paramL fuel ts).flatMap (fun (p, ts) => (errParamsL fuel n ts).map (fun (ps, r) => (p :: ps, r))) else [])
    ++ [([], ts)]

def errCode (fuel : Nat) : P ErrCode := fun ts0 => do
  let (c, ts) := comments ts0
  let (n, ts) ← ident ts
  if peekKw "(" ts then
    firstThat (errParamsL fuel fuel ts.tail) fun ps ts => do
      let ts ← kw? ")" ts
      let ts ← kw? ";" ts
      pure ({ name := n, params := ps, comment := c, pos := spanPos ts0 ts }, ts)
  else do
    let ts ← kw? ";" ts
    pure ({ name := n, params := [], comment := c, pos := spanPos ts0 ts }, ts)

inductive Member | m (x : Method) | p (x : Prop')

def member (fuel : Nat) : P Member := fun ts0 => do
  let (c, ts) := comments ts0
  if peekKw "property" ts then do
    let (n, ts) ← ident ts.tail
    let ts ← kw? ":" ts
    firstThat (typeRefL fuel ts) fun t ts => do
      let ts ← kw? ";" ts
      pure (.p { name := n, ty := t, comment := c, pos := spanPos ts0 ts }, ts)
  else do
    let (st, ts) := if peekKw "static" ts then (true, ts.tail) else (false, ts)
    let (co, ts) := if peekKw "const" ts then (true, ts.tail) else (false, ts)
    let (as, ts) := if peekKw "async" ts then (true, ts.tail) else (false, ts)
    let (n, ts) ← ident ts
    -- a method has the shape of a function signature followed by ';'
    if !peekKw "(" ts then none else
    firstThat (functionL fuel ts) fun sig ts => do
      let ts ← kw? ";" ts
      match sig with
      | .mk _ _ ps thr ret =>
        pure (.m { name := n, isStatic := st, isConst := co, isAsync := as, params := ps, throwing := thr, ret := ret, comment := c, pos := spanPos ts0 ts }, ts)

def typeDecl (fuel : Nat) (c : List String) (ts0 : List Token) : P Decl := fun ts => do
  let (n, ts) ← ident ts
  let ts ← kw? "=" ts
  if peekKw "enum" ts then do
    let ts ← kw? "{" ts.tail
    let (is, ts) ← many fuel (peekKw "}") item fuel ts
    let ts ← kw? "}" ts
    pure (.enum n c is (spanPos ts0 ts), ts)
  else if peekKw "flags" ts then do
    let ts ← kw? "{" ts.tail
    let (is, ts) ← many fuel (peekKw "}") flagItem fuel ts
    let ts ← kw? "}" ts
    pure (.flags n c is (spanPos ts0 ts), ts)
  else if peekKw "record" ts then do
    let (fl, ts1) := targets ts.tail
    let flp := spanPos ts.tail ts1
    let ts ← kw? "{" ts1
    let (fs, ts) ← many fuel (peekKw "}") (field fuel) fuel ts
    let ts ← kw? "}" ts
    if peekKw "deriving" ts then do
      let ts ← kw? "(" ts.tail
      let (ds, ts) ← if peekKw ")" ts then pure ([], ts) else derivingList fuel ts
      let ts ← kw? ")" ts
      pure (.record n c fl flp fs (some ds) (spanPos ts0 ts), ts)
    else pure (.record n c fl flp fs none (spanPos ts0 ts), ts)
  else if peekKw "main" ts || peekKw "interface" ts then do
    let (mn, ts) := if peekKw "main" ts then (true, ts.tail) else (false, ts)
    let ts ← kw? "interface" ts
    let (fl, ts1) := targets ts
    let flp := spanPos ts ts1
    let ts ← kw? "{" ts1
    let (ms, ts) ← many fuel (peekKw "}") (member fuel) fuel ts
    let ts ← kw? "}" ts
    let methods := ms.filterMap (fun | .m x => some x | _ => none)
    let props := ms.filterMap (fun | .p x => some x | _ => none)
    pure (.interface n c mn fl flp methods props (spanPos ts0 ts), ts)
  else if peekKw "error" ts then do
    let ts ← kw? "{" ts.tail
    let (cs, ts) ← many fuel (peekKw "}") (errCode fuel) fuel ts
    let ts ← kw? "}" ts
    pure (.error n c cs (spanPos ts0 ts), ts)
  else
    firstThat (functionL fuel ts) fun f ts => do
      let ts ← kw? ";" ts
      pure (.function n c f (spanPos ts0 ts), ts)

def content : Nat → P Content
  | 0, _ => none
  | fuel+1, ts0 =>
    let (c, ts) := comments ts0
    if peekKw "namespace" ts then do
      let (n, ts) ← nsIdent ts.tail
      let ts ← kw? "{" ts
      let (cs, ts) ← many fuel (peekKw "}") (content fuel) fuel ts
      let ts ← kw? "}" ts
      pure (.ns n c cs (spanPos ts0 ts), ts)
    else do
      let (d, ts) ← typeDecl fuel c ts0 ts
      pure (.decl d, ts)

def load : P LoadAt := fun ts =>
  match ts with
  | a :: b :: rest =>
    match b.tk with
    | .filepath s =>
      let l (imp : Bool) : LoadAt := { isImport := imp, lit := s, pos := spanPos ts rest, pathPos := spanPos (b :: rest) rest }
      if a.tk == .kw "@import" then some (l true, rest) else if a.tk == .kw "@extern" then some (l false, rest) else none
    | _ => none
  | _ => none

def parseFile (ts : List Token) : Option File := do
  -- every nesting level of the type grammar consumes a bounded number of fuel units (≤ 5) and at
  -- least one token, so this never runs out on any token list
  let fuel := 8 * ts.length + 16
  let (ls, ts) ← many fuel (fun t => !(peekKw "@import" t || peekKw "@extern" t)) load fuel ts
  let (cs, ts) ← many fuel (fun t => t.isEmpty) (content fuel) fuel ts
  if ts.isEmpty then some { loads := ls, contents := cs } else none

def parseText (s : String) : Option File := lex s >>= parseFile

end Pydjinni.Front
