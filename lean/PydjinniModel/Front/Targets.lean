/-!
`Parser.visitTargets`: evaluation of a `+x -y …` target-flag sequence against the list of
supported target keys. Import-free.

Python (after the `fix:` that copies the key list instead of aliasing it):

```python
includes, excludes = [], []
if "+any" in targets: includes = list(self.target_keys)
for target in targets:
    if target == "+any": continue
    if target.startswith('+'):
        if target[1:] not in includes: includes.append(target[1:])
    else: excludes.append(target[1:])
if (not includes) and excludes: includes = list(self.target_keys)
targets = [include for include in includes if include not in excludes]
```
-/
namespace Pydjinni.Front

/-- a TARGET token is `('+'|'-') [a-z]+`; `flagName "+cpp" = "cpp"` -/
def flagName (f : String) : String := (f.drop 1).toString
def isPlus (f : String) : Bool := f.startsWith "+"

/-- the `for target in targets` loop, on the include list -/
def addIncludes : List String → List String → List String
  | acc, [] => acc
  | acc, f :: fs =>
    if f == "+any" then addIncludes acc fs
    else if isPlus f then
      (if acc.contains (flagName f) then addIncludes acc fs else addIncludes (acc ++ [flagName f]) fs)
    else addIncludes acc fs

def excludesOf (flags : List String) : List String :=
  (flags.filter (fun f => !isPlus f)).map flagName

def evalTargets (keys flags : List String) : List String :=
  let base := if flags.contains "+any" then keys else []
  let incl := addIncludes base flags
  let excl := excludesOf flags
  let incl := if incl.isEmpty && !excl.isEmpty then keys else incl
  incl.filter (fun i => !excl.contains i)

/-- targets of an interface / a `function` type: an empty evaluation means "all supported" -/
def targetsOrAll (keys flags : List String) : List String :=
  let t := evalTargets keys flags
  if t.isEmpty then keys else t

end Pydjinni.Front
