/-!
`Parser.visitTargets`: evaluation of a `+x -y …` target-flag sequence against the list of
supported target keys. Import-free.

Python (after the `fix:` that copies the key list instead of aliasing it):

```python
includes, excludes = [], []
if "+any" in targets: includes = list(self.target_keys)
for target in targets:
    if target == "+any": continue
    if target.startswith('+'):
        if target[1:] not in includes: includes.append(target[1:])
    else: excludes.append(target[1:])
if (not includes) and excludes: includes = list(self.target_keys)
targets = [include for include in includes if include not in excludes]
```
-/
namespace Pydjinni.Front

/-- a TARGET token is `('+'|'-') [a-z]+`; `flagName "+cpp" = "cpp"` -/
def flagName (f : String) : String := (f.drop 1).toString
def isPlus (f : String) : Bool := f.startsWith "+"

/-- the `for target in targets` loop, on the include list -/
def addIncludes : List String → List String → List String
  | acc, [] => acc
  | acc, f :: fs =>
    if f == "+any" then addIncludes acc fs
    else if isPlus f then
      (if acc.contains (flagName f) then addIncludes acc fs else addIncludes (acc ++ [flagName f]) fs)
    else addIncludes acc fs

def excludesOf (flags : List String) : List String :=
  (flags.filter (fun f => !isPlus f)).map flagName

/-- what the flags include explicitly: all supported keys for `+any`, then every `+x` -/
def explicitIncludes (keys flags : List String) : List String :=
  addIncludes (if flags.contains "+any" then keys else []) flags

/-- `if (not includes) and excludes: includes = list(self.target_keys)` -/
def effectiveIncludes (keys flags : List String) : List String :=
  if (explicitIncludes keys flags).isEmpty && !(excludesOf flags).isEmpty then keys else explicitIncludes keys flags

def evalTargets (keys flags : List String) : List String :=
  (effectiveIncludes keys flags).filter (fun i => !(excludesOf flags).contains i)

/-- targets of an interface / a `function` type: an empty evaluation means "all supported" -/
def targetsOrAll (keys flags : List String) : List String :=
  let t := evalTargets keys flags
  if t.isEmpty then keys else t

end Pydjinni.Front
