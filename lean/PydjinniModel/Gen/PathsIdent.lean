/-!
Identifier conversion as used for *file names* (`pydjinni/parser/identifier.py: IdentifierType.convert`,
Python `str.title()` for anonymous function types). Import-free.

Written over `List Char` with a structurally recursive `split('_')` so that facts such as
"snake_case conversion is lower-casing" are provable. ASCII only: the IDL grammar restricts
identifiers to `[a-zA-Z][a-zA-Z0-9_]*`.
(A second copy of `convert` lives with property C02; this one is owned by C14/C15/C10.)
-/
namespace Pydjinni.GenC

inductive Case | none | camel | pascal | snake | kebab | train
deriving DecidableEq, Repr, Inhabited

/-- `IdentifierStyle`: a case plus an optional prefix -/
structure Style where
  case : Case
  pfx : Option String := none
deriving DecidableEq, Repr, Inhabited

def isUpperC (c : Char) : Bool := decide ('A' ≤ c) && decide (c ≤ 'Z')
def isLowerC (c : Char) : Bool := decide ('a' ≤ c) && decide (c ≤ 'z')
def upC (c : Char) : Char := if isLowerC c then Char.ofNat (c.toNat - 32) else c
def loC (c : Char) : Char := if isUpperC c then Char.ofNat (c.toNat + 32) else c

/-- Python `str.capitalize()`: first character upper-cased, the rest lower-cased -/
def capitalizeL : List Char → List Char
  | [] => []
  | c :: cs => upC c :: cs.map loC

/-- Python `str.title()` (ASCII): first letter of every run of letters upper, the rest lower -/
def titleGo (prevLetter : Bool) : List Char → List Char
  | [] => []
  | c :: cs =>
    let isL := isUpperC c || isLowerC c
    (if isL then (if prevLetter then loC c else upC c) else c) :: titleGo isL cs

def titleL (s : List Char) : List Char := titleGo false s

/-- Python `s.split('_')` -/
def splitU : List Char → List (List Char)
  | [] => [[]]
  | c :: cs =>
    if c = '_' then [] :: splitU cs
    else match splitU cs with
      | [] => [[c]]
      | t :: ts => (c :: t) :: ts

/-- `link.join(tokens)` -/
def joinL (link : List Char) : List (List Char) → List Char
  | [] => []
  | [t] => t
  | t :: ts => t ++ link ++ joinL link ts

def convTok (c : Case) (first : Bool) (t : List Char) : List Char :=
  match c, first with
  | .camel, true => t.map loC
  | .snake, _ => t.map loC
  | .kebab, _ => t.map loC
  | .camel, false => capitalizeL t
  | .pascal, _ => capitalizeL t
  | .train, _ => t.map upC
  | .none, _ => t

def linkOf : Case → List Char
  | .train => ['_']
  | .snake => ['_']
  | .kebab => ['-']
  | _ => []

/-- `IdentifierType.convert` on character lists -/
def convertL (st : Style) (s : List Char) : List Char :=
  let tokens := if st.case = .none then [s] else splitU s
  let out := match tokens with
    | [] => []
    | t :: ts => joinL (linkOf st.case) (convTok st.case true t :: ts.map (convTok st.case false))
  (match st.pfx with | some p => p.toList | none => []) ++ out

def convert (st : Style) (s : String) : String := String.ofList (convertL st s.toList)
def title (s : String) : String := String.ofList (titleL s.toList)

def Style.pascal : Style := { case := .pascal }
def Style.snake : Style := { case := .snake }

end Pydjinni.GenC
