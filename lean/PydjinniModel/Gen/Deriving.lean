import PydjinniModel.Lang.MiniImp
/-!
# Derived record operations (C09)

The bodies that `cpp/templates/source/record.jinja2.cpp` and `java/templates/record.jinja2.java` (with the per-field
expressions of `java/type.py: JavaDataField.equals / hash_code`) emit for a record, as `MiniImp` programs, and the
decisions whether a file / operator / method is emitted at all (`cpp/generator.py: generate_record`, the templates'
`'eq' in type_def.deriving and type_def.fields` guards). The model follows the tree after the `fix:` commits
(`||`/`&&` and the parenthesised hash term in `type.py`, `implements Comparable`, the `and type_def.fields` guards in
the C++ source template).
-/
namespace Pydjinni.Gen
open Pydjinni.Lang.MiniImp

/-- what the templates read of a record field -/
structure Field where
  idx : Nat
  cppName : String
  javaName : String
  optional : Bool        -- `field.type_ref.optional`
  ref : Bool             -- `type_def.java.typename == type_def.java.boxed` (Java reference type)
  isEnum : Bool          -- `type_def.primitive == enum`
  isBinary : Bool        -- `type_def.name == "binary"` (Java `byte[]`)
deriving Repr, BEq

/-- `a && b && c` (the template joins the per-field terms with `&&`); no term at all is not an expression -/
def conj {φ : Type} : List (E φ) → E φ
  | [] => .bad
  | [e] => e
  | e :: es => .and e (conj es)

/-! ## C++ (`source/record.jinja2.cpp`) -/

/-- `return lhs.a == rhs.a && lhs.b == rhs.b && …;` -/
def cppEqBody {φ : Type} (fs : List φ) : List (S φ) := [.ret (conj (fs.map .eqV))]

/-- `if (lhs.f < rhs.f) { return true; } if (rhs.f < lhs.f) { return false; }` per field, then `return false;` -/
def cppLtBody {φ : Type} : List φ → List (S φ)
  | [] => [.ret .ff]
  | f :: fs => .ifRet (.ltV .lhs f) .tt :: .ifRet (.ltV .rhs f) .ff :: cppLtBody fs

inductive CppOp where
  | eq | ne | lt | gt | le | ge
deriving Repr, BEq, DecidableEq

def notRes : Res Val → Res Val
  | .ok (.bool b) => .ok (.bool (!b))
  | .ok _ => .stuck
  | r => r

/-- the six operators: `!=` is `!(lhs == rhs)`, `>` is `rhs < lhs`, `<=` is `!(rhs < lhs)`, `>=` is `!(lhs < rhs)` -/
def cppOp {φ α : Type} (ops : Ops α) (fs : List φ) (env : Env φ α) : CppOp → Res Val
  | .eq => run ops env (cppEqBody fs)
  | .ne => notRes (run ops env (cppEqBody fs))
  | .lt => run ops env (cppLtBody fs)
  | .gt => run ops env.swap (cppLtBody fs)
  | .le => notRes (run ops env.swap (cppLtBody fs))
  | .ge => notRes (run ops env (cppLtBody fs))

/-! ## Java (`record.jinja2.java`, `type.py`) -/

/-- `JavaDataField.equals` -/
def javaEqualsTerm (f : Field) : E Field :=
  if f.isBinary then .eqV f          -- `java.util.Arrays.equals(this.f, other.f)`: null-safe, element-wise
  else if f.optional then
    .or (.and (.isNull .lhs f) (.isNull .rhs f)) (.and (.notNull .lhs f) (.equalsF f))
  else if f.isEnum then .eqV f
  else if f.ref then .equalsF f
  else .eqV f

/-- `equals` after the `instanceof` test and the cast: `return t1 && t2 && …;` -/
def javaEqualsBody (fs : List Field) : List (S Field) := [.ret (conj (fs.map javaEqualsTerm))]

/-- `JavaDataField.hash_code` -/
def javaHashTerm (f : Field) : E Field :=
  if f.isBinary then .cond (.isNull .lhs f) (.int 0) (.hashObjF f)    -- `java.util.Arrays.hashCode(f)`: 0 for null
  else if f.optional then .cond (.isNull .lhs f) (.int 0) (.hashObjF f)
  else if f.ref then .hashObjF f
  else .hashPrimF f

def javaHashSteps : List Field → List (S Field)
  | [] => [.ret .var]
  | f :: fs => .set (.add (.mul .var (.int 31)) (javaHashTerm f)) :: javaHashSteps fs

/-- `int hashCode = 17; hashCode = hashCode * 31 + <term>; … return hashCode;` -/
def javaHashBody (fs : List Field) : List (S Field) := .set (.int 17) :: javaHashSteps fs

/-- reference types: `tempResult = this.f.compareTo(other.f);` — primitives: the `<` / `>` cascade -/
def javaCompareTerm (f : Field) : E Field :=
  if f.ref then .compareF f
  else .cond (.ltP .lhs f) (.int (-1)) (.cond (.ltP .rhs f) (.int 1) (.int 0))

/-- per field `tempResult = …; if (tempResult != 0) { return tempResult; }`, then `return 0;` -/
def javaCompareBody : List Field → List (S Field)
  | [] => [.ret (.int 0)]
  | f :: fs => .set (javaCompareTerm f) :: .ifRet (.neZero .var) .var :: javaCompareBody fs

/-- `"<typename>{" + "a=" + a + ",b=" + b + "}"` -/
def javaToStringParts {α : Type} (ops : Ops α) (env : Env Field α) : List Field → Bool → List String
  | [], _ => []
  | f :: fs, first =>
    ((if first then "" else ",") ++ f.javaName ++ "=") ::
      (match env.l f with | some x => ops.str x | none => "null") :: javaToStringParts ops env fs false

def javaToString {α : Type} (ops : Ops α) (typename : String) (fs : List Field) (env : Env Field α) : String :=
  String.join ((typename ++ "{") :: javaToStringParts ops env fs true ++ ["}"])

/-- C++ `std::format("<typename>(a={}, b={})", ::pydjinni::format(value.a), …)`: format string and arguments -/
def cppToStringFormat (typename : String) (fs : List Field) : String × List String :=
  (typename ++ "(" ++ ", ".intercalate (fs.map (fun f => f.cppName ++ "={}")) ++ ")", fs.map (·.cppName))

/-! ## what is emitted at all -/

structure RecordCfg where
  eq : Bool
  ord : Bool
  nFields : Nat
  cppStringSer : Bool      -- `cpp.string_serialization`
  cppBase : Bool           -- `type_def.cpp.base_type` (record implemented in C++: `+cpp`)
  javaStringSer : Bool
deriving Repr, BEq

/-- `generate_record`: `eq in deriving or ord in deriving or (string_serialization and not base_type) and fields` -/
def cppWritesSource (c : RecordCfg) : Bool :=
  c.eq || c.ord || ((c.cppStringSer && !c.cppBase) && c.nFields != 0)

/-- header: `friend bool operator==/!=` under `'eq' in type_def.deriving and type_def.fields` -/
def cppDeclaresEq (c : RecordCfg) : Bool := c.eq && c.nFields != 0
def cppDeclaresOrd (c : RecordCfg) : Bool := c.ord && c.nFields != 0
/-- source: the same guards (since the `fix:` commit), and only if the source file is written -/
def cppDefinesEq (c : RecordCfg) : Bool := cppWritesSource c && c.eq && c.nFields != 0
def cppDefinesOrd (c : RecordCfg) : Bool := cppWritesSource c && c.ord && c.nFields != 0
def cppDeclaresToString (c : RecordCfg) : Bool := c.cppStringSer && !c.cppBase
def cppDefinesToString (c : RecordCfg) : Bool := cppWritesSource c && c.cppStringSer && !c.cppBase

def javaHasEquals (c : RecordCfg) : Bool := c.eq && c.nFields != 0
def javaHasHashCode (c : RecordCfg) : Bool := c.eq && c.nFields != 0
def javaHasCompareTo (c : RecordCfg) : Bool := c.ord && c.nFields != 0
def javaImplementsComparable (c : RecordCfg) : Bool := c.ord && c.nFields != 0
def javaHasToString (c : RecordCfg) : Bool := c.javaStringSer

/-! ## which operations a record derives (`parser.py: visitRecord`, `visitImportDef`; `generate.default_deriving`) -/

/-- a record declaration as far as `deriving` goes: its name and the explicit `deriving(eq)` / `deriving(ord)` -/
structure RecDecl where
  name : String
  eq : Bool
  ord : Bool
deriving Repr, BEq, DecidableEq

/-- one IDL file: the files it `@import`s and its own record declarations -/
inductive IdlFile where
  | mk (imports : List IdlFile) (records : List RecDecl)

/-- `visitRecord`: `deriving = explicit | self.default_deriving` -/
def RecDecl.withDefault (dEq dOrd : Bool) (r : RecDecl) : RecDecl :=
  { r with eq := r.eq || dEq, ord := r.ord || dOrd }

mutual
/-- `Parser(default_deriving, idl).parse()`: the type definitions of the imported files — each parsed by a nested `Parser`
that `visitImportDef` constructs with the *same* `default_deriving` — followed by the file's own records -/
def IdlFile.parse (dEq dOrd : Bool) : IdlFile → List RecDecl
  | .mk imports records => IdlFile.parseAll dEq dOrd imports ++ records.map (RecDecl.withDefault dEq dOrd)
def IdlFile.parseAll (dEq dOrd : Bool) : List IdlFile → List RecDecl
  | [] => []
  | f :: fs => IdlFile.parse dEq dOrd f ++ IdlFile.parseAll dEq dOrd fs
end

mutual
/-- the declarations as written, in the same order, whatever file they stand in -/
def IdlFile.decls : IdlFile → List RecDecl
  | .mk imports records => IdlFile.declsAll imports ++ records
def IdlFile.declsAll : List IdlFile → List RecDecl
  | [] => []
  | f :: fs => IdlFile.decls f ++ IdlFile.declsAll fs
end

/-- the configuration of a record's emission decisions under `generate.default_deriving` -/
def RecordCfg.withDefault (c : RecordCfg) (dEq dOrd : Bool) : RecordCfg :=
  { c with eq := c.eq || dEq, ord := c.ord || dOrd }

/-! ## specification-level definitions (independent of the emitted bodies) -/

/-- all fields equal -/
def allEq {α : Type} (ops : Ops α) : List (Option α) → List (Option α) → Bool
  | [], [] => true
  | a :: as, b :: bs => optEq ops a b && allEq ops as bs
  | _, _ => false

/-- lexicographic order of the field lists, `none` first -/
def lexLt {α : Type} (ops : Ops α) : List (Option α) → List (Option α) → Bool
  | a :: as, b :: bs => optLt ops a b || (!optLt ops b a && lexLt ops as bs)
  | _, _ => false

end Pydjinni.Gen
