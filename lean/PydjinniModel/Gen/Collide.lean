import PydjinniModel.Gen.Paths
/-!
C15: which declarations are written to the same file, and why. Import-free.

`declWrites`: the per-declaration files of one generator run with the index of the declaration they
come from; `collisions`: pairs of *different* declarations mapped to one path; `cause`: the shape of a
collision (the key of the known finding).
-/
namespace Pydjinni.GenC

/-- qualified IDL name -/
def qname (d : Decl) : List String := d.ns ++ [d.name]

def indexed {α : Type} (l : List α) : List (Nat × α) := (List.range l.length).zip l

/-- per-declaration writes of one generator: (declaration index, declaration, kind, path as written) -/
def declWrites (g : G) (cm cc : GCfg) (ds : List Decl) : List (Nat × Decl × FKind × Path) :=
  match g with
  | .yaml =>
    (match cc.outFile with
     | some _ => []
     | none => (indexed ds).filterMap (fun (i, d) =>
        if d.kind == .function && d.anonymous then none
        else some (i, d, (place cc (FKind.source, relSource .yaml cc d)))))
  | _ => (indexed ds).flatMap (fun (i, d) => (declFiles g cm cc d).map (fun f => (i, d, place cc f)))

inductive Cause
  | duplicateDecl      -- the same inline function type written twice in one namespace: identical declaration, identical file
  | namespaceDropped   -- equal names in different namespaces; the generator's file name has no namespace component
  | baseSuffix         -- `x` marked `+<target>` is generated as `x_base`, next to a declaration really called `x_base`
  | conversion         -- different names (of declarations or of namespace components) that the identifier style maps to one file name (`foo_bar` / `foo__bar`, `Net.x` / `net.x`)
  | concatenation      -- Objective-C: namespace and name are concatenated without a separator
deriving DecidableEq, Repr, Inhabited

def Cause.key : Cause → String
  | .duplicateDecl => "duplicate-declaration"
  | .namespaceDropped => "namespace-dropped"
  | .baseSuffix => "base-suffix"
  | .conversion => "conversion"
  | .concatenation => "concatenation"

/-- generators whose file names carry the namespace (as directories, a package path or a prefix) -/
def keepsNamespace : G → Bool
  | .cpp => true | .cppcli => true | .java => true | .objc => true
  | _ => false

def cause (g : G) (d₁ d₂ : Decl) : Cause :=
  if d₁.ns == d₂.ns && d₁.name == d₂.name then .duplicateDecl
  else if d₁.name == d₂.name then
    -- equal names in different namespaces: a generator that keeps the namespace only maps them to one path when its
    -- identifier style maps the *namespace components* to the same spelling (`Net` / `net`, `ui_kit` / `uiKit`), or,
    -- in Objective-C, when different component lists concatenate to one prefix (`a.b` / `ab`)
    if keepsNamespace g then
      (if g == .objc && d₁.ns.length != d₂.ns.length then .concatenation else .conversion)
    else .namespaceDropped
  else if baseName g d₁ == baseName g d₂ then .baseSuffix
  else if d₁.ns == d₂.ns then .conversion
  else if g == .objc then .concatenation
  else .conversion

structure Collision where
  g : G
  kind : FKind
  path : Path
  first : Nat
  second : Nat
  cause : Cause
deriving Repr, Inhabited

/-- every pair (earlier, later) of per-declaration writes of one generator that hit the same path -/
def collisionsOf (g : G) : List (Nat × Decl × FKind × Path) → List Collision
  | [] => []
  | (i, d₁, k, p) :: rest =>
    (rest.filterMap (fun (j, d₂, _, q) =>
      if q = p then some { g := g, kind := k, path := p, first := i, second := j, cause := cause g d₁ d₂ } else none))
    ++ collisionsOf g rest

def collisions (g : G) (cm cc : GCfg) (ds : List Decl) : List Collision :=
  collisionsOf g (declWrites g cm cc ds)

/-- the check itself: no path receives two different contents -/
def noOverwrite {κ : Type} [DecidableEq κ] (log : List (String × κ)) : Bool :=
  log.all (fun a => log.all (fun b => a.1 != b.1 || a.2 == b.2))

def overwritten {κ : Type} [DecidableEq κ] (log : List (String × κ)) : List String :=
  (log.filter (fun a => log.any (fun b => a.1 == b.1 && a.2 != b.2))).map (·.1) |>.eraseDups

end Pydjinni.GenC
