import PydjinniModel.Gen.Paths
/-!
C15: which declarations are written to the same file, and why. Import-free.

`declWrites`: the per-declaration files of one generator run with the index of the declaration they
come from; `collisions`: pairs of *different* declarations mapped to one path; `cause`: the shape of a
collision (the key of the known finding).
-/
namespace Pydjinni.GenC

/-- qualified IDL name -/
def qname (d : Decl) : List String := d.ns ++ [d.name]

def indexed {α : Type} (l : List α) : List (Nat × α) := (List.range l.length).zip l

/-- per-declaration writes of one generator: (declaration index, declaration, kind, path as written) -/
def declWrites (g : G) (cm cc : GCfg) (ds : List Decl) : List (Nat × Decl × FKind × Path) :=
  match g with
  | .yaml =>
    (match cc.outFile with
     | some _ => []
     | none => (indexed ds).filterMap (fun (i, d) =>
        if d.kind == .function && d.anonymous then none
        else some (i, d, (place cc (FKind.source, relSource .yaml cc d)))))
  | _ => (indexed ds).flatMap (fun (i, d) => (declFiles g cm cc d).map (fun f => (i, d, place cc f)))

inductive Cause
  | duplicateDecl      -- the same inline function type written twice in one namespace: identical declaration, identical file
  | namespaceDropped   -- equal names in different namespaces; the generator's file name has no namespace component
  | baseSuffix         -- `x` marked `+<target>` is generated as `x_base`, next to a declaration really called `x_base`
  | conversion         -- different names (of declarations or of namespace components) that the identifier style maps to one file name (`foo_bar` / `foo__bar`, `Net.x` / `net.x`)
  | concatenation      -- Objective-C: namespace and name are concatenated without a separator
deriving DecidableEq, Repr, Inhabited

def Cause.key : Cause → String
  | .duplicateDecl => "duplicate-declaration"
  | .namespaceDropped => "namespace-dropped"
  | .baseSuffix => "base-suffix"
  | .conversion => "conversion"
  | .concatenation => "concatenation"

/-- generators whose file names carry the namespace (as directories, a package path or a prefix) -/
def keepsNamespace : G → Bool
  | .cpp => true | .cppcli => true | .java => true | .objc => true
  | _ => false

def cause (g : G) (d₁ d₂ : Decl) : Cause :=
  if d₁.ns == d₂.ns && d₁.name == d₂.name then .duplicateDecl
  else if d₁.name == d₂.name then
    -- equal names in different namespaces: a generator that keeps the namespace only maps them to one path when its
    -- identifier style maps the *namespace components* to the same spelling (`Net` / `net`, `ui_kit` / `uiKit`), or,
    -- in Objective-C, when different component lists concatenate to one prefix (`a.b` / `ab`)
    if keepsNamespace g then
      (if g == .objc && d₁.ns.length != d₂.ns.length then .concatenation else .conversion)
    else .namespaceDropped
  else if baseName g d₁ == baseName g d₂ then .baseSuffix
  else if d₁.ns == d₂.ns then .conversion
  else if g == .objc then .concatenation
  else .conversion

structure Collision where
  g : G
  kind : FKind
  path : Path
  first : Nat
  second : Nat
  cause : Cause
deriving Repr, Inhabited

/-- every pair (earlier, later) of per-declaration writes of one generator that hit the same path -/
def collisionsOf (g : G) : List (Nat × Decl × FKind × Path) → List Collision
  | [] => []
  | (i, d₁, k, p) :: rest =>
    (rest.filterMap (fun (j, d₂, _, q) =>
      if q = p then some { g := g, kind := k, path := p, first := i, second := j, cause := cause g d₁ d₂ } else none))
    ++ collisionsOf g rest

def collisions (g : G) (cm cc : GCfg) (ds : List Decl) : List Collision :=
  collisionsOf g (declWrites g cm cc ds)

/-! ## the synthetic name of an inline function type (`Parser.visitFunction`)

An inline function type (`cb: (x: i32) throws -> bool`) has no name of its own; the parser names it
`'_'.join(['function'] + targets + [signature(p.type_ref) for p in parameters] + [signature(return) or 'void']
 + (['throws'] + [e.name for e in throwing] if throwing is not None else []))`, where
`signature(t, depth = 2) = ('_' * depth).join([t.name] + [signature(a, depth + 1) for a in t.parameters])`.
Every generator derives the file names from this name, so two inline function types of one namespace are written to the
same files exactly when their names agree. The name encodes: the targets, the parameter and return type *names* (generic
arguments at increasing separator widths), whether the function returns, and the `throws` clause — bare (`some []`) as well
as with a list of error domains. It does not encode parameter names, `?` (optionality), the signature of a function-typed
parameter (`<function>`), and the separator is a character of identifiers (`foo, bar` / `foo_bar`). -/

/-- a type expression as written -/
inductive TExp where
  | ref (name : String) (optional : Bool) (args : List TExp)
  | fn (spelled : String)      -- a function-typed parameter: `type_ref.name = "<function>"`; `spelled` only tells two of them apart
deriving Repr, Inhabited, BEq

/-- `throwing`: `none` — cannot throw; `some []` — bare `throws` (may throw anything); `some es` — the listed error domains -/
structure Sig where
  targets : List String := []          -- the written `+t` list; `[]`: no `function +…` prefix (all target keys)
  params : List (String × TExp) := []
  ret : Option TExp := none
  throws : Option (List String) := none
deriving Repr, Inhabited, BEq

def repU (n : Nat) : List Char := List.replicate n '_'

/-! the literal parts, as character lists (`String.toList` of a literal does not reduce well inside `simp`) -/
def wFunction : List Char := ['f', 'u', 'n', 'c', 't', 'i', 'o', 'n']
def wFnType : List Char := ['<', 'f', 'u', 'n', 'c', 't', 'i', 'o', 'n', '>']     -- `TypeReference.name` of a function-typed parameter
def wVoid : List Char := ['v', 'o', 'i', 'd']
def wThrows : List Char := ['t', 'h', 'r', 'o', 'w', 's']

mutual
/-- `signature(type_ref, depth)` -/
def sigT : Nat → TExp → List Char
  | d, .ref n _ args => joinL (repU d) (n.toList :: sigTs (d + 1) args)
  | _, .fn _ => wFnType
def sigTs : Nat → List TExp → List (List Char)
  | _, [] => []
  | d, t :: ts => sigT d t :: sigTs d ts
end

def throwsParts : Option (List String) → List (List Char)
  | none => []
  | some es => wThrows :: es.map (·.toList)

def effTargets (keys : List String) (s : Sig) : List String := if s.targets.isEmpty then keys else s.targets

def retPart : Option TExp → List Char
  | some t => sigT 2 t
  | none => wVoid

/-- the parts in front of the `throws` clause: never empty -/
def headParts (keys : List String) (s : Sig) : List (List Char) :=
  wFunction :: ((effTargets keys s).map (·.toList) ++ s.params.map (fun p => sigT 2 p.2) ++ [retPart s.ret])

def anonParts (keys : List String) (s : Sig) : List (List Char) := headParts keys s ++ throwsParts s.throws

def anonNameL (keys : List String) (s : Sig) : List Char := joinL ['_'] (anonParts keys s)

/-- the name `visitFunction` gives the type; `keys` = the target keys of the installed generators, in order -/
def anonName (keys : List String) (s : Sig) : String := String.ofList (anonNameL keys s)

mutual
/-- the type expression without `?` and without the signatures of function-typed parameters -/
def eraseT : TExp → TExp
  | .ref n _ args => .ref n false (eraseTs args)
  | .fn _ => .fn ""
def eraseTs : List TExp → List TExp
  | [] => []
  | t :: ts => eraseT t :: eraseTs ts
end

mutual
/-- the type expression without the signatures of function-typed parameters -/
def eraseFn : TExp → TExp
  | .ref n o args => .ref n o (eraseFns args)
  | .fn _ => .fn ""
def eraseFns : List TExp → List TExp
  | [] => []
  | t :: ts => eraseFn t :: eraseFns ts
end

/-- the components in which two signatures differ (each is one dimension of the family generator) -/
def sigDiff (keys : List String) (a b : Sig) : List String :=
  let types := fun (s : Sig) => s.params.map (·.2) ++ s.ret.toList
  (if effTargets keys a != effTargets keys b then ["targets"] else [])
  ++ (if a.params.length != b.params.length then ["arity"]
      else if (types a).map eraseT != (types b).map eraseT then
        (if a.ret.isSome != b.ret.isSome then ["return"]
         else if a.params.map (eraseT ·.2) != b.params.map (eraseT ·.2) then ["parameter-types"] else ["return"])
      else if (types a).map eraseFn != (types b).map eraseFn then ["optional"]
      else if types a != types b then ["nested-function"] else [])
  ++ (if a.throws != b.throws then ["throws"] else [])
  ++ (if a.params.map (·.1) != b.params.map (·.1) then ["parameter-names"] else [])

/-- Why two inline function types of one namespace share their files. `model` = the name function of the pinned tree gives
    both the same name (a Dom clause of the pinned tree, keyed by what the name leaves out); otherwise the names *must* differ
    and an overwrite is a defect of the name the implementation computed. -/
def anonCause (keys : List String) (a b : Sig) : String :=
  let d := sigDiff keys a b
  -- written alike in every component, parameter names included: ONE declaration written twice — what is rendered for it is a
  -- function of the declaration, so two writes of it (from one file) are byte-identical and nothing is lost
  if d.isEmpty then "identical-declaration"
  else if anonName keys a == anonName keys b then
    (if d.all (· == "parameter-names") then "duplicate-declaration"
     else if d.all (fun c => c == "parameter-names" || c == "optional") then "anonymous:optional-dropped"
     else if d.all (fun c => c == "parameter-names" || c == "optional" || c == "nested-function") then "anonymous:nested-function"
     else "anonymous:join-ambiguity")
  else "anonymous-signature:" ++ (d.filter (· != "parameter-names")).headD "none"

/-- the check itself: no path receives two different contents -/
def noOverwrite {κ : Type} [DecidableEq κ] (log : List (String × κ)) : Bool :=
  log.all (fun a => log.all (fun b => a.1 != b.1 || a.2 == b.2))

def overwritten {κ : Type} [DecidableEq κ] (log : List (String × κ)) : List String :=
  (log.filter (fun a => log.any (fun b => a.1 == b.1 && a.2 != b.2))).map (·.1) |>.eraseDups

end Pydjinni.GenC
