import PydjinniModel.Gen.Ident
/-!
# Specification of identifier conversion (C02: "names follow the configured identifier style")

`convertSpec st s out`: `out` is the configured prefix followed by a body that has the *shape* of the style and
carries exactly the letters and digits of `s` (case-folded; `_` and `-` are separators).  The shape pins the word structure:
camelCase / PascalCase have capital letters exactly at the starts of the `_`-separated words (and nowhere else — a digit does
not start a word), the separator styles keep every separator in place.
-/
namespace Pydjinni.Gen

def isSep (c : Char) : Bool := c == '_' || c == '-'

/-- the letters and digits of an identifier, case-folded -/
def letters (cs : List Char) : List Char := (cs.filter (fun c => !isSep c)).map lo

def headOk (p : Char → Bool) : List Char → Bool
  | [] => true
  | c :: _ => p c

/-- For every character of the IDL identifier that is not `_`: does it start a word?  Words are the `_`-separated pieces;
    `start` says whether the next such character does (the first word of `camelCase` is written like the inside of a word). -/
def wordStarts (start : Bool) : List Char → List Bool
  | [] => []
  | c :: cs => if c = '_' then wordStarts true cs else start :: wordStarts false cs

/-- Capital letters exactly where the words start: position by position, a character at a word start is not a lower-case
    letter and every other character is not an upper-case letter (`vec3d ↦ Vec3d`, not `Vec3D`; `HTTPReq ↦ Httpreq`);
    as many characters as the identifier has outside its separators. -/
def capsAt : List Bool → List Char → Bool
  | [], [] => true
  | st :: sts, c :: cs => (if st then !isLowerC c else !isUpperC c) && capsAt sts cs
  | _, _ => false

/-- a character up to case, every separator read as `_` -/
def foldSep (c : Char) : Char := if isSep c then '_' else lo c

/-- the separator styles keep the identifier character by character: same length, a separator exactly where the identifier
    has one (`a__b ↦ a__b`, `e_ ↦ E_`), every other character changed in case only -/
def sameSkeleton (s b : List Char) : Bool := b.map foldSep == s.map foldSep

/-- the shape of each identifier style -/
def styleShape : Case → List Char → List Char → Bool
  | .none, s, b => b == s
  | .snake, s, b => b.all (fun c => !isUpperC c) && sameSkeleton s b
  | .train, s, b => b.all (fun c => !isLowerC c) && sameSkeleton s b
  | .kebab, s, b => b.all (fun c => !isUpperC c && c != '_') && sameSkeleton s b
  | .camel, s, b => b.all (fun c => c != '_') && headOk (fun c => !isUpperC c) b && capsAt (wordStarts false s) b
  | .pascal, s, b => b.all (fun c => c != '_') && headOk (fun c => !isLowerC c) b && capsAt (wordStarts true s) b

def convertSpec (st : Style) (s out : List Char) : Bool :=
  (pfxL st).isPrefixOf out &&
  (let body := out.drop (pfxL st).length
   styleShape st.case s body && letters body == letters s)

end Pydjinni.Gen
