import PydjinniModel.Gen.Ident
/-!
# Specification of identifier conversion (C02: "names follow the configured identifier style")

`convertSpec st s out`: `out` is the configured prefix followed by a body that has the *shape* of the style and
carries exactly the letters and digits of `s` (case-folded; `_` and `-` are separators).
-/
namespace Pydjinni.Gen

def isSep (c : Char) : Bool := c == '_' || c == '-'

/-- the letters and digits of an identifier, case-folded -/
def letters (cs : List Char) : List Char := (cs.filter (fun c => !isSep c)).map lo

def headOk (p : Char → Bool) : List Char → Bool
  | [] => true
  | c :: _ => p c

/-- the shape of each identifier style -/
def styleShape : Case → List Char → List Char → Bool
  | .none, s, b => b == s
  | .snake, _, b => b.all (fun c => !isUpperC c)
  | .train, _, b => b.all (fun c => !isLowerC c)
  | .kebab, _, b => b.all (fun c => !isUpperC c && c != '_')
  | .camel, _, b => b.all (fun c => c != '_') && headOk (fun c => !isUpperC c) b
  | .pascal, _, b => b.all (fun c => c != '_') && headOk (fun c => !isLowerC c) b

def convertSpec (st : Style) (s out : List Char) : Bool :=
  (pfxL st).isPrefixOf out &&
  (let body := out.drop (pfxL st).length
   styleShape st.case s body && letters body == letters s)

end Pydjinni.Gen
