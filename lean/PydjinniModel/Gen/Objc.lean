import PydjinniModel.Gen.Types
/-!
# Objective-C marshalling (`generator/objc/objc/type.py`) and what the Objective-C header templates declare
-/
namespace Pydjinni.Gen

/-- `ObjcBaseType.namespace` -/
def objcNamespace (c : ObjcCfg) (ns : List String) : String := convert c.tyStyle (joinS "_" ns)

/-- `ObjcBaseType.typename` of a declared (non-function) type -/
def objcUserTypename (c : ObjcCfg) (u : UInfo) : String :=
  c.typePrefix ++ objcNamespace c u.ns ++ convert c.tyStyle u.name

/-- `type_def.objc.pointer` -/
def objcPointer : TDef → Bool
  | .builtin b => b.objcPointer
  | .user u => u.prim == .record || u.prim == .interface || u.prim == .error
  | .func _ _ _ _ _ => false

/-- `annotation(type_ref, macro_style)` -/
def objcAnnotation (t : Option RType) (macroStyle : Bool) : String :=
  match t with
  | some (.mk d _ o) =>
    if o && d.prim != .function then (if macroStyle then "_Nullable" else "nullable")
    else if objcPointer d then (if macroStyle then "_Nonnull" else "nonnull") else ""
  | none => ""

/-- the text of a block type from its parts (`ObjcFunction.typename` with the caret part as a parameter) -/
def blockText (ret : String) (caret : String) (params : List String) (noexcept : Bool) : String :=
  ret ++ " " ++ caret ++ "(" ++ joinS ", " (params ++ (if noexcept then [] else ["NSError* _Nullable * _Nonnull"])) ++ ")"

/-- the last steps of `type_decl` on the computed base name: `id<…>` for interface parameters, generic arguments,
    the pointer star -/
def objcShape (d : TDef) (parameter boxed optional : Bool) (typename : String) (args : List String) : String :=
  let isIfaceParam := d.prim == .interface && parameter
  applyArgs (if isIfaceParam then "id<" ++ typename ++ ">" else typename) args ++
    (if (!isIfaceParam && objcPointer d) || boxed || (optional && d.prim != .function) then " *" else "")

mutual
/-- `type_decl(type_ref, parameter, boxed)` -/
def objcTypeDecl (c : ObjcCfg) : RType → Bool → Bool → String
  | .mk d args optional, parameter, boxed =>
    objcShape d parameter boxed optional (objcBase c d (boxed || optional) optional) (objcTypeDecls c args)
/-- `type_def.objc.boxed if boxed or optional else type_def.objc.typename`.
    For a function type `type_def.objc.typename` is `<ret> (^)(<params>)` and `type_decl` substitutes
    `(^ _Nullable)` / `(^ _Nonnull)` for `(^)` (`str.replace`; the text has exactly one `(^)` because nested
    block types have already been substituted): modelled by building the text with the caret part directly. -/
def objcBase (c : ObjcCfg) : TDef → Bool → Bool → String
  | .builtin b, boxedOrOptional, _ => if boxedOrOptional then b.objcBoxed else b.objcTypename
  | .user u, _, _ => objcUserTypename c u
  | .func _ _ noexcept params ret, _, optional =>
    blockText (objcTypeDeclO c ret) (if optional then "(^ _Nullable)" else "(^ _Nonnull)") (objcFnParams c params) noexcept
/-- the parameter list of a block type: `type_decl(p, parameter=True) + " " + annotation(p, macro_style=True)` -/
def objcFnParams (c : ObjcCfg) : List RType → List String
  | [] => []
  | p :: ps => (objcTypeDecl c p true false ++ " " ++ objcAnnotation (some p) true) :: objcFnParams c ps
def objcTypeDecls (c : ObjcCfg) : List RType → List String
  | [] => []
  | t :: ts => objcTypeDecl c t false true :: objcTypeDecls c ts
def objcTypeDeclO (c : ObjcCfg) : Option RType → String
  | none => "void"
  | some t => objcTypeDecl c t false false
end

/-- `ObjcFunction.typename` -/
def objcFnTypename (c : ObjcCfg) (params : List RType) (ret : Option RType) (noexcept : Bool) (caret : String) : String :=
  blockText (objcTypeDeclO c ret) caret (objcFnParams c params) noexcept

/-- `type_def.objc.typename` -/
def objcTypename (c : ObjcCfg) : TDef → String
  | .builtin b => b.objcTypename
  | .user u => objcUserTypename c u
  | .func _ _ noexcept params ret => objcFnTypename c params ret noexcept "(^)"

/-- `type_def.objc.header` (the header is named after `name`, which for records with an Objective-C base is the `_base` name) -/
def objcDeclName (c : ObjcCfg) (u : UInfo) : String :=
  if u.prim == .record && u.targets.contains "objc" then
    c.typePrefix ++ objcNamespace c u.ns ++ convert c.tyStyle (u.name ++ "_base")
  else objcUserTypename c u

def objcHeader (c : ObjcCfg) : TDef → String
  | .builtin _ => ""
  | .user u => objcDeclName c u ++ "." ++ c.headerExt
  | .func u _ _ _ _ => objcUserTypename c u ++ "." ++ c.headerExt

def objcppHeader (ext : String) : TDef → String
  | .builtin _ => ""
  | .user u => convert pascal u.name ++ "+Private." ++ ext
  | .func u anonymous _ _ _ => (if anonymous then title u.name else convert pascal u.name) ++ "+Private." ++ ext

/-! ## header skeleton -/

def withAnn (ann ty : String) : String := if ann.isEmpty then ty else ann ++ " " ++ ty

/-- a record field as an initialiser argument: `(annotation type_decl)name` -/
def objcFieldArg (c : ObjcCfg) (f : FieldD) : MemberS :=
  { ty := withAnn (objcAnnotation (some f.ty) false) (objcTypeDecl c f.ty false false), name := convert c.fieldStyle f.name }

/-- `@property (nonatomic, readonly[, annotation]) type_decl name;` — `ty` is the attribute annotation followed by the type -/
def objcProperty (c : ObjcCfg) (f : FieldD) : MemberS :=
  { ty := withAnn (objcAnnotation (some f.ty) false) (objcTypeDecl c f.ty false false), name := convert c.fieldStyle f.name }

def objcParam (c : ObjcCfg) (p : FieldD) : MemberS :=
  { ty := withAnn (objcAnnotation (some p.ty) false) (objcTypeDecl c p.ty true false), name := convert c.fieldStyle p.name }

/-- `ObjcMethod.completion_handler` -/
def objcCompletion (c : ObjcCfg) (m : MethodD) : String :=
  let noexcept := m.throwing.isNone
  if m.ret.isNone && !noexcept then "nonnull void (^)(NSError* _Nullable)"
  else "nonnull void (^)(" ++ objcTypeDeclO c m.ret ++ " " ++ objcAnnotation m.ret true ++ (if noexcept then "" else ", NSError* _Nullable") ++ ")"

/-- `ObjcMethod.parameters` -/
def objcMethodParams (c : ObjcCfg) (m : MethodD) : List MemberS :=
  m.params.map (objcParam c) ++
  (if m.isAsync then [{ ty := objcCompletion c m, name := "completion" }]
   else if m.throwing.isSome then [{ ty := "NSError* _Nullable * _Nonnull", name := "error" }] else [])

def objcMethod (c : ObjcCfg) (m : MethodD) : MethodS :=
  { pre := [if m.isStatic then "+" else "-"],
    ret := if m.isAsync then "void" else withAnn (objcAnnotation m.ret false) (objcTypeDeclO c m.ret),
    name := convert c.methodStyle m.name, params := objcMethodParams c m, post := [] }

def objcSkel (c : ObjcCfg) : Decl → DeclS
  | .enum u items =>
    let n := objcDeclName c u
    { DeclS.empty with
      kind := "enum", name := n, items := items.map (fun i => n ++ convert c.enumStyle i) }
  | .flags u items =>
    let n := objcDeclName c u
    { DeclS.empty with
      kind := "flags", name := n, items := items.map (fun f => n ++ convert c.enumStyle f.name) }
  | .record u fields _ derivingOrd =>
    let n := objcDeclName c u
    let initName := match fields with
      | f :: _ => convert c.methodStyle ("init_with_" ++ f.name)
      | [] => "init"
    let convName := match fields with
      | f :: _ => convert c.methodStyle ((if u.targets.contains "objc" then u.name ++ "_base" else u.name) ++ "_with_" ++ f.name)
      | [] => convert c.methodStyle u.name
    { DeclS.empty with
      kind := "struct", name := n, mods := ["interface"],
      fields := fields.map (objcProperty c), ctor := fields.map (objcFieldArg c),
      methods := [{ pre := ["-"], ret := "nonnull instancetype", name := initName, params := fields.map (objcFieldArg c), post := [] },
                  { pre := ["+"], ret := "nonnull instancetype", name := convName, params := fields.map (objcFieldArg c), post := [] }] ++
                 (if derivingOrd then [{ pre := ["-"], ret := "NSComparisonResult", name := "compare", params := [{ ty := "nonnull " ++ n ++ " *", name := "other" }], post := [] }] else []) }
  | .interface u methods =>
    { DeclS.empty with
      kind := "class", name := objcDeclName c u,
      mods := if u.targets.contains "objc" then ["protocol"] else ["interface"],
      methods := methods.map (objcMethod c) }
  | .function _ _ _ _ _ => { DeclS.empty with kind := "none" }
  | .error u codes =>
    let n := objcDeclName c u
    { DeclS.empty with
      kind := "error", name := n,
      items := codes.map (fun k => n ++ convert c.tyStyle k.name),
      -- `ObjcErrorDomain.user_info_keys`
      fields := codes.flatMap (fun k => k.params.map (fun p =>
        { ty := "NSErrorUserInfoKey", name := objcUserTypename c u ++ convert c.tyStyle k.name ++ convert c.tyStyle p.name })) }

end Pydjinni.Gen
