import PydjinniModel.Lang.EnumEval
/-!
# Enum and flags emission (C08)

What the ten templates `header/{enum,flags}.jinja2.*` of the C++, Java, Objective-C, C++/CLI and
JNI generators emit for the *constants*, path by path:

* C++ / ObjC / C++-CLI flags: a loop over all flags with a running counter
  (`set counter = namespace(value=0)`): `none` → `0`, `all` → the numeric mask `2^n - 1` (n = number of
  ordinary flags; since the `fix:` commit — before, `0 | <names of all ordinary flags>`, see
  `emitCounterPinned`), any other flag → `1u << counter; counter += 1`.
  ObjC prefixes every constant with the type name.
* Java flags: an `enum` of the ordinary flags only (`for flag in flags if not none and not all`); a value
  is an `EnumSet`, the bit of a constant is its ordinal.
* enums: the items in declaration order without initialisers (C++/ObjC/C++-CLI/Java).
* JNI: enums cross by `static_cast<CppType>(ordinal)` / `values()[static_cast<jint>(c)]`, flags by
  `flags |= 1u << ordinal` / `for i < bits: if (flags & 1u << i) add(values()[i])` with
  `bits = type_def.flags | length`.
-/
namespace Pydjinni.Gen
open Pydjinni.Lang

structure Flag where
  name : String
  all : Bool
  none : Bool
deriving Repr, BEq, Inhabited

def Flag.ordinary (f : Flag) : Bool := !f.none && !f.all

def ordinaryCount (fs : List Flag) : Nat := (fs.filter Flag.ordinary).length

/-- `(2 ** (ordinary flags | length)) - 1` -/
def allMask (fs : List Flag) : Nat := 2 ^ ordinaryCount fs - 1

/-- the flags loop of `flags.jinja2.hpp` (C++), `flags.jinja2.h` (ObjC), `flags.jinja2.hpp` (C++/CLI):
`c` is `counter.value` -/
def emitCounter (pref : String) (mask : Nat) : List Flag → Nat → List Enumerator
  | [], _ => []
  | f :: fs, c =>
    if f.none then ⟨pref ++ f.name, some (.lit 0)⟩ :: emitCounter pref mask fs c
    else if f.all then ⟨pref ++ f.name, some (.lit mask)⟩ :: emitCounter pref mask fs c
    else ⟨pref ++ f.name, some (.shl (.lit 1) (.lit c))⟩ :: emitCounter pref mask fs (c + 1)

/-- C++ header (`flag.cpp.name`) -/
def emitCpp (fs : List Flag) : List Enumerator := emitCounter "" (allMask fs) fs 0
/-- ObjC header (`type_def.objc.name ~ flag.objc.name`) -/
def emitObjc (typeName : String) (fs : List Flag) : List Enumerator := emitCounter typeName (allMask fs) fs 0
/-- C++/CLI header (`flag.cppcli.name`) -/
def emitCppCli (fs : List Flag) : List Enumerator := emitCounter "" (allMask fs) fs 0

/-- Java `enum`: the ordinary flags only, in order; the constant's bit is its ordinal -/
def javaConstants (fs : List Flag) : List String := (fs.filter Flag.ordinary).map (·.name)

/-- enum items: declaration order, no initialisers (all four languages; ObjC with the type-name prefix) -/
def emitEnum (pref : String) (names : List String) : List Enumerator := names.map (fun n => ⟨pref ++ n, none⟩)

/-! ## the emission of the pinned tree (before the `fix:` commit), kept for the counterexamples -/

def orAll : List String → EExpr → EExpr
  | [], acc => acc
  | n :: ns, acc => orAll ns (.bor acc (.ref n))

/-- `0 | A | B | C`; with no ordinary flag the text is `0 | ` — not an expression -/
def allExprPinned (pref : String) (all : List Flag) : EExpr :=
  match (all.filter Flag.ordinary).map (fun f => pref ++ f.name) with
  | [] => .bor (.lit 0) .bad
  | ns => orAll ns (.lit 0)

def emitCounterPinned (pref : String) (all : List Flag) : List Flag → Nat → List Enumerator
  | [], _ => []
  | f :: fs, c =>
    if f.none then ⟨pref ++ f.name, some (.lit 0)⟩ :: emitCounterPinned pref all fs c
    else if f.all then ⟨pref ++ f.name, some (allExprPinned pref all)⟩ :: emitCounterPinned pref all fs c
    else ⟨pref ++ f.name, some (.shl (.lit 1) (.lit c))⟩ :: emitCounterPinned pref all fs (c + 1)

/-! ## JNI marshalling (support library `JniEnum` / `JniFlags` as called by the JNI header templates) -/

/-- `static_cast<CppType>(ordinal(j))` -/
def jniEnumToCpp (ordinal : Nat) : Nat := ordinal
/-- `values()[static_cast<jint>(c)]`; `none` = `ArrayIndexOutOfBoundsException` -/
def jniEnumFromCpp (nValues c : Nat) : Option Nat := if c < nValues then some c else none

/-- `JniFlags::flags`: `flags |= 1u << ordinal` over the members of the `EnumSet` -/
def jniFlagsToCpp (ordinals : List Nat) : Nat := ordinals.foldl (fun acc o => acc ||| (1 <<< o)) 0

/-- `JniFlags::create(flags, bits)`: ordinals `i < bits` (ascending, starting at `i`) whose bit is set;
`none` = `values()[i]` out of range -/
def jniFlagsFromCppFrom (nValues v : Nat) : Nat → Nat → Option (List Nat)
  | _, 0 => some []
  | i, k + 1 =>
    if v.testBit i then
      (if i < nValues then (jniFlagsFromCppFrom nValues v (i + 1) k).map (i :: ·) else none)
    else jniFlagsFromCppFrom nValues v (i + 1) k

def jniFlagsFromCpp (nValues bits v : Nat) : Option (List Nat) := jniFlagsFromCppFrom nValues v 0 bits

/-- `{{ type_def.flags | length }}`: *all* flags, `none`/`all` included -/
def jniBits (fs : List Flag) : Nat := fs.length

/-! ## specification -/

/-- number of ordinary flags before position `p` -/
def ordinalAt (fs : List Flag) (p : Nat) : Nat := ordinaryCount (fs.take p)

/-- the property: the i-th ordinary flag is bit i, `none` is 0, `all` is the union of all ordinary flags -/
def specFlag (fs : List Flag) (p : Nat) (f : Flag) : Nat :=
  if f.none then 0 else if f.all then 2 ^ ordinaryCount fs - 1 else 2 ^ ordinalAt fs p

def specValues (fs : List Flag) : List Nat := fs.zipIdx.map (fun (f, p) => specFlag fs p f)

def valuesOf (obs : List (String × Option Nat)) : List (Option Nat) := obs.map (·.2)

/-- decidable specification on an observation of one C-family target -/
def specCTarget (fs : List Flag) (obs : List (String × Option Nat)) : Bool :=
  valuesOf obs == (specValues fs).map some

/-- Java: exactly the ordinary flags, in order (ordinal = bit index) -/
def specJava (fs : List Flag) (javaNames : List String) (obs : List String) : Bool :=
  obs == ((fs.zip javaNames).filter (fun p => p.1.ordinary)).map (·.2)

def specEnumTarget (n : Nat) (obs : List (String × Option Nat)) : Bool :=
  valuesOf obs == (List.range n).map some

/-- shape clauses of the two defects of the pinned tree (repaired; kept to label a regression) -/
def allFlagHasOrdinary (fs : List Flag) : Bool := !(fs.any (·.all)) || fs.any Flag.ordinary

def allFlagAfterOrdinaries : List Flag → Bool
  | [] => true
  | f :: rest => (if f.all then rest.all (fun g => !g.ordinary) else true) && allFlagAfterOrdinaries rest

end Pydjinni.Gen
