import PydjinniModel.Gen.Java
/-!
# JNI marshalling (`generator/java/jni/type.py`), the JVM lookups and native exports the JNI templates
emit, and the classes / members the Java templates declare (C07)
-/
namespace Pydjinni.Gen

/-- `JniBaseType.name` / `JniFunction.name` -/
def jniName (c : JniCfg) : TDef → String
  | .builtin b => b.name
  | .user u => convert c.classStyle u.name
  | .func u anonymous _ _ _ => if anonymous then title u.name else convert c.classStyle u.name

def TDef.ns : TDef → List String
  | .builtin _ => []
  | .user u => u.ns
  | .func u _ _ _ _ => u.ns

/-- `JniBaseType.class_descriptor` = `'/'.join(decl.java.package.split('.') + [self.name])` -/
def jniClassDescriptor (jc : JavaCfg) (c : JniCfg) (d : TDef) : String :=
  joinS "/" (javaPackageL jc d.ns ++ [jniName c d])

/-- `JniBaseType.jni_prefix` input: the segments -/
def jniPrefixSegments (jc : JavaCfg) (c : JniCfg) (d : TDef) : List String := javaPackageL jc d.ns ++ [jniName c d]

/-- `jni_prefix(segments)` -/
def jniPrefix (segments : List String) : String := joinS "_" ("Java" :: segments.map mangle)

/-- the descriptor of a *reference* to a user type: flags are passed as `java.util.EnumSet`, everything
    else (records, interfaces, enums, error domains, function types) as its own class -/
def jniUserSig (jc : JavaCfg) (c : JniCfg) (d : TDef) : String :=
  if d.prim == .flags then "Ljava/util/EnumSet;" else "L" ++ jniClassDescriptor jc c d ++ ";"

/-- `type_def.jni.type_signature` -/
def jniTypeSig (jc : JavaCfg) (c : JniCfg) : TDef → String
  | .builtin b => b.jniSig
  | d => jniUserSig jc c d

/-- `type_def.jni.boxed_type_signature` (`JniBaseType`: the same as `type_signature`) -/
def jniBoxedSig (jc : JavaCfg) (c : JniCfg) : TDef → String
  | .builtin b => b.jniBoxedSig
  | d => jniUserSig jc c d

/-- the descriptor the templates write for a field / parameter / result of this type -/
def jniRefSig (jc : JavaCfg) (c : JniCfg) (t : RType) : String :=
  if t.optional then jniBoxedSig jc c t.def' else jniTypeSig jc c t.def'

/-- module-level `type_signature(parameters, return_type_ref, asynchronous)` -/
def jniMethodSig (jc : JavaCfg) (c : JniCfg) (params : List RType) (ret : Option RType) (async : Bool) : String :=
  "(" ++ concatS (params.map (jniRefSig jc c)) ++ ")" ++
    (if async then "Ljava/util/concurrent/CompletableFuture;" else match ret with
      | none => "V"
      | some r => jniRefSig jc c r)

/-- `type_def.jni.typename` (the `jvalue` member type) -/
def jniNativeType : TDef → String
  | .builtin b => b.jniTypename
  | _ => "jobject"

/-- `get_typename(type_ref)`: optional values travel boxed, except strings and byte arrays -/
def jniGetTypename (t : RType) : String :=
  let n := jniNativeType t.def'
  if t.optional && n != "jstring" && n != "jbyteArray" then "jobject" else n

/-- `JniMethod.return_type_spec` / `JniFunction.return_type_spec` -/
def jniReturnTypeSpec (ret : Option RType) (async : Bool) : String :=
  if async then "jobject" else match ret with
    | some r => jniGetTypename r
    | none => "void"

/-- `type_def.jni.header` -/
def jniHeader (c : JniCfg) : TDef → String
  | .builtin _ => "pydjinni/jni/marshal.hpp"
  | .user u => convert c.fileStyle u.name ++ "." ++ c.headerExt
  | .func u _ _ _ _ => convert c.fileStyle u.name ++ "." ++ c.headerExt

/-! ## lookups and exports of the JNI templates -/

structure Lookup where
  /-- binary name of the class that is searched (`a/b/C$D`) -/
  cls : String
  /-- `class`, `method`, `static`, `field` -/
  kind : String
  name : String
  sig : String
deriving Repr, DecidableEq, Inhabited

structure Export where
  symbol : String
  ret : String
  /-- `jobject` (instance native) or `jclass` (static native) -/
  recv : String
  params : List String
deriving Repr, DecidableEq, Inhabited

def classLookup (cls : String) : Lookup := { cls := cls, kind := "class", name := "", sig := "" }

/-- `CppProxyClassInfo(className)` of the support library -/
def proxyLookups (cls : String) : List Lookup :=
  [classLookup cls, { cls := cls, kind := "method", name := "<init>", sig := "(J)V" },
   { cls := cls, kind := "field", name := "nativeRef", sig := "J" }]

/-- `JniEnum(name)` of the support library -/
def enumLookups (cls : String) : List Lookup :=
  [classLookup cls, { cls := cls, kind := "static", name := "values", sig := "()[L" ++ cls ++ ";" },
   { cls := cls, kind := "method", name := "ordinal", sig := "()I" }]

def fieldLookups (jc : JavaCfg) (c : JniCfg) (cls : String) (fs : List FieldD) : List Lookup :=
  fs.map (fun f => { cls := cls, kind := "field", name := convert jc.fieldStyle f.name, sig := jniRefSig jc c f.ty })

def ctorSig (jc : JavaCfg) (c : JniCfg) (fs : List FieldD) (extra : String) : String :=
  "(" ++ concatS (fs.map (fun f => jniRefSig jc c f.ty)) ++ extra ++ ")V"

def declTDef : Decl → TDef
  | .function u anonymous params ret throwing => .func u anonymous throwing.isNone (params.map (·.ty)) ret
  | d => .user d.info

/-- every class / member the generated JNI code of one declaration looks up in the JVM -/
def jniLookups (jc : JavaCfg) (c : JniCfg) (d : Decl) : List Lookup :=
  let cls := jniClassDescriptor jc c (declTDef d)
  match d with
  | .enum _ _ => enumLookups cls
  | .flags _ _ => enumLookups cls
  | .record _ fields _ _ =>
    [classLookup cls, { cls := cls, kind := "method", name := "<init>", sig := ctorSig jc c fields "" }] ++ fieldLookups jc c cls fields
  | .interface u methods =>
    (if u.targets.contains "cpp" then proxyLookups (cls ++ "$CppProxy") else []) ++
    (if u.targets.contains "java" then
      classLookup cls :: methods.map (fun m =>
        { cls := cls, kind := "method", name := convert jc.methodStyle m.name,
          sig := jniMethodSig jc c (m.params.map (·.ty)) m.ret m.isAsync })
     else [])
  | .function u _ params ret _ =>
    (if u.targets.contains "cpp" then proxyLookups (cls ++ "CppProxy") else []) ++
    (if u.targets.contains "java" then
      [classLookup cls, { cls := cls, kind := "method", name := "invoke", sig := jniMethodSig jc c (params.map (·.ty)) ret false }]
     else [])
  | .error _ codes =>
    codes.flatMap (fun k =>
      let kc := cls ++ "$" ++ convert jc.tyStyle k.name
      [classLookup kc, { cls := kc, kind := "method", name := "<init>", sig := ctorSig jc c k.params "Ljava/lang/String;" }] ++
      fieldLookups jc c kc k.params ++
      [{ cls := kc, kind := "method", name := "getMessage", sig := "()Ljava/lang/String;" }])

def exportParam (p : FieldD) : String := jniGetTypename p.ty

/-- name of the native method the Java template declares in `CppProxy` for an interface method -/
def javaNativeName (jc : JavaCfg) (m : MethodD) : String :=
  if m.isStatic then convert jc.methodStyle m.name else "native_" ++ convert jc.methodStyle m.name

/-- every `JNIEXPORT` function of the generated JNI source of one declaration -/
def jniExports (jc : JavaCfg) (c : JniCfg) (d : Decl) : List Export :=
  let pfx := jniPrefix (jniPrefixSegments jc c (declTDef d))
  match d with
  | .interface u methods =>
    if u.targets.contains "cpp" then
      { symbol := pfx ++ "_00024CppProxy_00024CleanupTask_nativeDestroy", ret := "void", recv := "jobject", params := ["jlong"] } ::
      methods.map (fun m =>
        -- `JniMethod.native_symbol`: the escaped name of the native method the Java `CppProxy` declares
        { symbol := pfx ++ "_00024CppProxy_" ++ mangle (javaNativeName jc m),
          ret := jniReturnTypeSpec m.ret m.isAsync,
          recv := if m.isStatic then "jclass" else "jobject",
          params := (if m.isStatic then [] else ["jlong"]) ++ m.params.map exportParam })
    else []
  | .function u _ params ret _ =>
    if u.targets.contains "cpp" then
      [{ symbol := pfx ++ "CppProxy_00024CleanupTask_nativeDestroy", ret := "void", recv := "jobject", params := ["jlong"] },
       { symbol := pfx ++ "CppProxy_nativeInvoke", ret := jniReturnTypeSpec ret false, recv := "jobject",
         params := "jlong" :: params.map exportParam }]
    else []
  | _ => []

/-! ## classes and members the generated Java declares -/

structure JMember where
  /-- package components of the declaring class -/
  pkg : List String
  /-- binary simple name of the declaring class (`Outer$Inner`) -/
  cname : String
  /-- `field`, `method`, `ctor` -/
  kind : String
  name : String
  isStatic : Bool
  isNative : Bool
  params : List JType
  /-- result type of a method (`none` = `void`), type of a field -/
  ret : Option JType
deriving Repr, Inhabited

/-- binary name `a/b/C$D` -/
def JMember.cls (m : JMember) : String := joinS "/" (m.pkg ++ [m.cname])

def JMember.desc (m : JMember) : String :=
  if m.kind == "field" then descO m.ret else methodDesc m.params m.ret

/-- the symbol the JVM binds a native method to -/
def JMember.symbol (m : JMember) : String := nativeSymbolL (m.pkg ++ [m.cname]) m.name

def jlong : JType := .prim "long"
def jString : JType := .cls ["java", "lang"] "String" []

def proxyMembers (pkg : List String) (cname : String) : List JMember :=
  [{ pkg := pkg, cname := cname, kind := "field", name := "nativeRef", isStatic := false, isNative := false, params := [], ret := some jlong },
   { pkg := pkg, cname := cname, kind := "ctor", name := "<init>", isStatic := false, isNative := false, params := [jlong], ret := none },
   { pkg := pkg, cname := cname ++ "$CleanupTask", kind := "method", name := "nativeDestroy", isStatic := false, isNative := true, params := [jlong], ret := none }]

def fieldMember (jc : JavaCfg) (pkg : List String) (cname : String) (f : FieldD) : JMember :=
  { pkg := pkg, cname := cname, kind := "field", name := convert jc.fieldStyle f.name, isStatic := false, isNative := false,
    params := [], ret := some (javaJT jc f.ty false) }

def fieldMembers (jc : JavaCfg) (pkg : List String) (cname : String) (fs : List FieldD) : List JMember :=
  fs.map (fieldMember jc pkg cname)

def paramJTs (jc : JavaCfg) (fs : List FieldD) : List JType := fs.map (fun f => javaJT jc f.ty false)

def declAnonymous : Decl → Bool
  | .function _ a _ _ _ => a
  | _ => false

/-- package and simple name of the class the Java template of a declaration writes -/
def javaClassPkg (jc : JavaCfg) (d : Decl) : List String := javaPackageL jc d.info.ns
def javaClassSimple (jc : JavaCfg) (d : Decl) : String := javaDeclName jc d.info (declAnonymous d)

/-- binary name of that class -/
def javaClassName (jc : JavaCfg) (d : Decl) : String := joinS "/" (javaClassPkg jc d ++ [javaClassSimple jc d])

def methodMember (jc : JavaCfg) (pkg : List String) (cname : String) (m : MethodD) : JMember :=
  { pkg := pkg, cname := cname, kind := "method", name := convert jc.methodStyle m.name, isStatic := m.isStatic, isNative := false,
    params := paramJTs jc m.params, ret := javaRetJT jc m.ret m.isAsync }

/-- the native method `CppProxy` declares for an interface method -/
def nativeMember (jc : JavaCfg) (pkg : List String) (cname : String) (m : MethodD) : JMember :=
  { pkg := pkg, cname := cname, kind := "method", name := javaNativeName jc m, isStatic := m.isStatic, isNative := true,
    params := (if m.isStatic then [] else [jlong]) ++ paramJTs jc m.params, ret := javaRetJT jc m.ret m.isAsync }

def codeMembers (jc : JavaCfg) (pkg : List String) (cname : String) (k : CodeD) : List JMember :=
  let kc := cname ++ "$" ++ convert jc.tyStyle k.name
  [{ pkg := pkg, cname := kc, kind := "ctor", name := "<init>", isStatic := false, isNative := false, params := paramJTs jc k.params, ret := none },
   { pkg := pkg, cname := kc, kind := "ctor", name := "<init>", isStatic := false, isNative := false, params := paramJTs jc k.params ++ [jString], ret := none }] ++
  fieldMembers jc pkg kc k.params ++
  [{ pkg := ["java", "lang"], cname := "Throwable", kind := "method", name := "getMessage", isStatic := false, isNative := false, params := [], ret := some jString }]

def javaMembers (jc : JavaCfg) (d : Decl) : List JMember :=
  let pkg := javaClassPkg jc d
  let cn := javaClassSimple jc d
  match d with
  | .enum _ _ | .flags _ _ =>
    [{ pkg := pkg, cname := cn, kind := "method", name := "values", isStatic := true, isNative := false, params := [], ret := some (.arr (.cls pkg cn [])) },
     { pkg := ["java", "lang"], cname := "Enum", kind := "method", name := "ordinal", isStatic := false, isNative := false, params := [], ret := some (.prim "int") }]
  | .record _ fields _ _ =>
    { pkg := pkg, cname := cn, kind := "ctor", name := "<init>", isStatic := false, isNative := false, params := paramJTs jc fields, ret := none } ::
    fieldMembers jc pkg cn fields
  | .interface u methods =>
    methods.map (methodMember jc pkg cn) ++
    (if u.targets.contains "cpp" then proxyMembers pkg (cn ++ "$CppProxy") ++ methods.map (nativeMember jc pkg (cn ++ "$CppProxy")) else [])
  | .function u _ params ret _ =>
    { pkg := pkg, cname := cn, kind := "method", name := "invoke", isStatic := false, isNative := false, params := paramJTs jc params, ret := javaRetJT jc ret false } ::
    (if u.targets.contains "cpp" then
      proxyMembers pkg (cn ++ "CppProxy") ++
      [{ pkg := pkg, cname := cn ++ "CppProxy", kind := "method", name := "nativeInvoke", isStatic := false, isNative := true,
         params := jlong :: paramJTs jc params, ret := javaRetJT jc ret false }]
     else [])
  | .error _ codes => codes.flatMap (codeMembers jc pkg cn)

/-- the classes the generated Java of a declaration declares (binary names) -/
def javaClasses (jc : JavaCfg) (d : Decl) : List String :=
  let cls := javaClassName jc d
  match d with
  | .enum _ _ | .flags _ _ | .record _ _ _ _ => [cls]
  | .interface u _ => cls :: (if u.targets.contains "cpp" then [cls ++ "$CppProxy", cls ++ "$CppProxy$CleanupTask"] else [])
  | .function u _ _ _ _ => cls :: (if u.targets.contains "cpp" then [cls ++ "CppProxy", cls ++ "CppProxy$CleanupTask"] else [])
  | .error _ codes => cls :: codes.map (fun k => cls ++ "$" ++ convert jc.tyStyle k.name)

/-! ## what "the lookup resolves" means on the model's Java side -/

/-- a looked-up member is found in the class itself or (methods only) inherited from `java.lang.Enum` / `java.lang.Throwable` -/
def memberMatches (l : Lookup) (m : JMember) : Bool :=
  m.name == l.name && m.desc == l.sig &&
  (match l.kind with
   | "field" => m.kind == "field" && !m.isStatic && m.cls == l.cls
   | "method" => !m.isStatic && ((m.kind == "ctor" && m.cls == l.cls) ||
       (m.kind == "method" && (m.cls == l.cls || m.cls == "java/lang/Enum" || m.cls == "java/lang/Throwable")))
   | "static" => m.kind == "method" && m.isStatic && m.cls == l.cls
   | _ => false)

def lookupOk (jc : JavaCfg) (d : Decl) (l : Lookup) : Bool :=
  if l.kind == "class" then (javaClasses jc d).contains l.cls else (javaMembers jc d).any (memberMatches l)

/-! ## domain clauses (one per known finding of C07; named, decidable) -/

/-- the JNI generator's name of a type is the Java generator's name of it -/
def tdefNameAgrees (jc : JavaCfg) (c : JniCfg) : TDef → Bool
  | .builtin _ => true
  | .user u => u.prim == .flags || convert c.classStyle u.name == convert jc.tyStyle u.name
  | .func u anonymous _ _ _ => anonymous || convert c.classStyle u.name == convert jc.tyStyle u.name

/-- the types whose descriptors appear in the lookups of a declaration (generic arguments are erased) -/
def referencedDefs : Decl → List TDef
  | .enum _ _ | .flags _ _ => []
  | .record _ fields _ _ => fields.map (·.ty.def')
  | .interface _ ms => ms.flatMap (fun m => m.params.map (·.ty.def') ++ (match m.ret with | some r => [r.def'] | none => []))
  | .function _ _ params ret _ => params.map (·.ty.def') ++ (match ret with | some r => [r.def'] | none => [])
  | .error _ codes => codes.flatMap (fun k => k.params.map (·.ty.def'))

/-- `jniClassNameIsJavaName`: the JNI generator computes class descriptors (of the declaration itself and of every
    type in its member signatures) with its own `class_name` style; they name the Java classes only if both
    styles give the same names -/
def jniClassNameIsJavaName (jc : JavaCfg) (c : JniCfg) (d : Decl) : Bool :=
  (match d with
   | .flags u _ => convert c.classStyle u.name == convert jc.tyStyle u.name
   | d => tdefNameAgrees jc c (declTDef d)) &&
  (referencedDefs d).all (tdefNameAgrees jc c)

/-- `noJavaBaseRecord`: for `record +java` Java declares `<Name>Base` and the user derives `<Name>`; the glue looks up `<Name>` -/
def noJavaBaseRecord (d : Decl) : Bool :=
  match d with
  | .record u _ _ _ => !u.targets.contains "java"
  | _ => true

/-- `staticOnlyOnCppInterfaces`: the front end accepts `static` methods only on interfaces implemented in C++ alone
    (C05 rule), so a Java-implemented interface has instance methods only -/
def staticOnlyOnCppInterfaces : Decl → Bool
  | .interface u ms => !u.targets.contains "java" || ms.all (fun m => !m.isStatic)
  | _ => true

def domViolations (jc : JavaCfg) (c : JniCfg) (d : Decl) : List String :=
  (if jniClassNameIsJavaName jc c d then [] else ["jniClassNameIsJavaName"]) ++
  (if noJavaBaseRecord d then [] else ["noJavaBaseRecord"]) ++
  (if staticOnlyOnCppInterfaces d then [] else ["staticOnlyOnCppInterfaces"])

/-! ## support classes of asynchronous methods (`NativeRunnable`, `NativeCompletion`), written once per generation -/

/-- `JniGenerator.java_support_package`: a plain property, read from the configuration the generator instance holds
    *at the time it generates* (`metadata.java.config`) -/
def jniSupportPackage (jc : JavaCfg) : List String := jc.package ++ jc.supportPackage

/-- `JavaGenerator.generate_runnable / generate_completion`: the package the Java support classes are written to -/
def javaSupportPackage (jc : JavaCfg) : List String := jc.package ++ jc.supportPackage

def supportJniClass (jc : JavaCfg) (n : String) : String := joinS "/" (jniSupportPackage jc ++ [n])

/-- `schedule.hpp` / `completion.hpp`: `JniInterface("<package>/NativeRunnable")`, … -/
def supportLookups (jc : JavaCfg) (runnable completion : Bool) : List Lookup :=
  (if runnable then proxyLookups (supportJniClass jc "NativeRunnable") else []) ++
  (if completion then proxyLookups (supportJniClass jc "NativeCompletion") else [])

/-- `schedule.cpp` / `completion.cpp`: the `JNIEXPORT` functions, `jni_prefix(java_support_package + [name])` -/
def supportExports (jc : JavaCfg) (runnable completion : Bool) : List Export :=
  let pfx (n : String) : String := jniPrefix (jniSupportPackage jc ++ [n])
  (if runnable then
    [{ symbol := pfx "NativeRunnable" ++ "_00024CleanupTask_nativeDestroy", ret := "void", recv := "jobject", params := ["jlong"] },
     { symbol := pfx "NativeRunnable" ++ "_nativeRun", ret := "void", recv := "jobject", params := ["jlong"] }] else []) ++
  (if completion then
    [{ symbol := pfx "NativeCompletion" ++ "_00024CleanupTask_nativeDestroy", ret := "void", recv := "jobject", params := ["jlong"] },
     { symbol := pfx "NativeCompletion" ++ "_nativeSuccess", ret := "void", recv := "jobject", params := ["jlong", "jobject"] },
     { symbol := pfx "NativeCompletion" ++ "_nativeException", ret := "void", recv := "jobject", params := ["jlong", "jthrowable"] }] else [])

def jObject : JType := .cls ["java", "lang"] "Object" []
def jThrowable : JType := .cls ["java", "lang"] "Throwable" []

/-- `NativeRunnable.java` / `NativeCompletion.java` -/
def supportMembers (jc : JavaCfg) (runnable completion : Bool) : List JMember :=
  let spkg := javaSupportPackage jc
  (if runnable then
    proxyMembers spkg "NativeRunnable" ++
    [{ pkg := spkg, cname := "NativeRunnable", kind := "method", name := "nativeRun", isStatic := false, isNative := true, params := [jlong], ret := none }] else []) ++
  (if completion then
    proxyMembers spkg "NativeCompletion" ++
    [{ pkg := spkg, cname := "NativeCompletion", kind := "method", name := "nativeSuccess", isStatic := false, isNative := true, params := [jlong, jObject], ret := none },
     { pkg := spkg, cname := "NativeCompletion", kind := "method", name := "nativeException", isStatic := false, isNative := true, params := [jlong, jThrowable], ret := none }] else [])

def supportClasses (jc : JavaCfg) (runnable completion : Bool) : List String :=
  let cls (n : String) : String := joinS "/" (javaSupportPackage jc ++ [n])
  (if runnable then [cls "NativeRunnable", cls "NativeRunnable" ++ "$CleanupTask"] else []) ++
  (if completion then [cls "NativeCompletion", cls "NativeCompletion" ++ "$CleanupTask"] else [])

/-! ## one `API` object, several configure → parse → generate rounds

The generator instances are created once per `API` object; every `configure` *replaces* the configuration (and the
metadata of the sibling generators) they hold, every `generate` reads it anew (no value derived from the configuration
is kept in the instance). -/

structure Round where
  jc : JavaCfg
  c : JniCfg
  decls : List Decl

/-- what the Java / JNI generator instances hold between two calls -/
structure GenState where
  jc : JavaCfg
  c : JniCfg

structure RoundOut where
  lookups : List Lookup
  exports : List Export
  members : List JMember
  classes : List String

/-- `any(isinstance(t, Interface) and target in t.targets and any(m.asynchronous …))` -/
def asyncOn (target : String) (decls : List Decl) : Bool :=
  decls.any (fun d => match d with
    | .interface u ms => u.targets.contains target && ms.any (·.isAsync)
    | _ => false)

/-- `Generator.configure`: the held configuration is replaced -/
def GenState.configure (_ : GenState) (r : Round) : GenState := { jc := r.jc, c := r.c }

/-- `generate("java")` with the configuration held by the instances -/
def GenState.generate (s : GenState) (decls : List Decl) : RoundOut :=
  let runnable := asyncOn "cpp" decls
  let completion := asyncOn "java" decls
  { lookups := decls.flatMap (jniLookups s.jc s.c) ++ supportLookups s.jc runnable completion,
    exports := decls.flatMap (jniExports s.jc s.c) ++ supportExports s.jc runnable completion,
    members := decls.flatMap (javaMembers s.jc) ++ supportMembers s.jc runnable completion,
    classes := decls.flatMap (javaClasses s.jc) ++ supportClasses s.jc runnable completion }

/-- the outputs of a call history on one `API` object -/
def runHistory (s : GenState) : List Round → List RoundOut
  | [] => []
  | r :: rs => (s.configure r).generate r.decls :: runHistory (s.configure r) rs

/-- what a fresh `API` object writes for one round -/
def freshRound (r : Round) : RoundOut := GenState.generate { jc := r.jc, c := r.c } r.decls

end Pydjinni.Gen
