import PydjinniModel.Gen.PathsIdent
/-!
Where generated files go (C14, C15, C10). Import-free.

* `Path`: pathlib as far as pydjinni uses it — a list of components plus an "absolute" flag;
  `a / b` where an absolute right operand wins.
* `GCfg`: the part of one generator's configuration that decides file names and which files exist.
* `relHeader / relSource`: the marshalling properties `header` / `source` of every generator
  (`generator/*/*/type.py`), `declFiles`: which of them `generate_<kind>` writes, `extraFiles`: the files the
  JNI/Java/Objective-C generators add after the per-type loop (loader, schedule, completion, cleaner,
  bridging header) with the file names *they* pass, `yamlFiles`.
* `genRel`: all relative names of one generator run in write order; `genWrites`: joined with the
  configured directory the way `Generator.write_header/write_source` do.

Two configurations are threaded through: `cm` is the configuration the marshalling objects were built
with (at parse time), `cc` the generator's configuration at generate time. They coincide unless
another configured context of the same `API` object parsed in between (C10).
-/
namespace Pydjinni.GenC

structure Path where
  abs : Bool
  parts : List String
deriving DecidableEq, Repr, Inhabited

def Path.rel (parts : List String) : Path := ⟨false, parts⟩

/-- Python `a / b` -/
def Path.join (a b : Path) : Path := if b.abs then b else ⟨a.abs, a.parts ++ b.parts⟩

/-- `Path(s)` for POSIX strings without a `//` prefix: empty and `.` components vanish, `..` stays -/
def Path.ofString (s : String) : Path :=
  ⟨s.startsWith "/", (s.splitOn "/").filter (fun c => c != "" && c != ".")⟩

def Path.toString (p : Path) : String :=
  if p.abs then "/" ++ "/".intercalate p.parts
  else if p.parts.isEmpty then "." else "/".intercalate p.parts

/-- `out: Path | OutPaths` -/
inductive Out
  | one (p : Path)
  | two (source header : Path)
deriving DecidableEq, Repr, Inhabited

def Out.header : Out → Path
  | .one p => p
  | .two _ h => h
def Out.source : Out → Path
  | .one p => p
  | .two s _ => s

inductive FKind | header | source
deriving DecidableEq, Repr, Inhabited

/-- the generators of the pinned tree -/
inductive G | cpp | java | jni | objc | objcpp | cppcli | yaml
deriving DecidableEq, Repr, Inhabited

def G.key : G → String
  | .cpp => "cpp" | .java => "java" | .jni => "jni" | .objc => "objc"
  | .objcpp => "objcpp" | .cppcli => "cppcli" | .yaml => "yaml"

def G.all : List G := [.cpp, .java, .jni, .objc, .objcpp, .cppcli, .yaml]

/-- `writes_header` -/
def G.writesHeader : G → Bool
  | .java => false | .yaml => false | _ => true

/-- generation targets and their generator instances, in `Target.generators` order -/
inductive T | cpp | cppcli | java | objc | yaml
deriving DecidableEq, Repr, Inhabited

def T.key : T → String
  | .cpp => "cpp" | .cppcli => "cppcli" | .java => "java" | .objc => "objc" | .yaml => "yaml"

def T.generators : T → List G
  | .cpp => [.cpp] | .cppcli => [.cppcli] | .java => [.java, .jni] | .objc => [.objc, .objcpp] | .yaml => [.yaml]

/-- the configuration fields of one generator that decide names and existence of files
    (fields a generator does not have are ignored by it) -/
structure GCfg where
  out : Out
  file : Style := .snake             -- cpp / jni / cppcli `identifier.file`
  type : Style := .pascal            -- java / objc `identifier.type`
  pkgStyle : Style := .snake         -- java `identifier.package`
  headerExt : String := "hpp"
  sourceExt : String := "cpp"
  package : List String := []        -- java `package`
  support : List String := ["pydjinni"]  -- java `support_types_package`
  typePrefix : String := ""          -- objc `type_prefix`
  stringSer : Bool := true           -- cpp `string_serialization`
  loader : Bool := true              -- jni `loader`
  nativeLib : Option String := none  -- java `native_lib`
  bridging : Option Path := none     -- objc `swift.bridging_header`
  outFile : Option Path := none      -- yaml `out_file`
  content : String := ""             -- digest of every other configuration field (they only reach file *contents*)
deriving DecidableEq, Repr, Inhabited

def GCfg.dir (c : GCfg) : FKind → Path
  | .header => c.out.header
  | .source => c.out.source

inductive DKind | enum | flags | record | interface | function | error
deriving DecidableEq, Repr, Inhabited

/-- a type declaration as far as file naming is concerned -/
structure Decl where
  name : String
  ns : List String := []
  kind : DKind
  targets : List String := []        -- after `visitTargets` (records: explicit only; interfaces/functions: or all)
  anonymous : Bool := false          -- inline function type
  hasFields : Bool := false          -- record
  derivingEq : Bool := false
  derivingOrd : Bool := false
  asyncMethods : Bool := false       -- interface: some method is `async`
  content : String := ""             -- digest of the rest of the declaration
deriving DecidableEq, Repr, Inhabited

/-- a `+<target>` record is generated as `<name>_base` -/
def isBase (g : G) (d : Decl) : Bool := d.kind == .record && d.targets.contains g.key

def baseName (g : G) (d : Decl) : String := if isBase g d then d.name ++ "_base" else d.name

/-- Java package of a declaration: configured package followed by the converted namespace -/
def javaPackage (c : GCfg) (d : Decl) : List String := c.package ++ d.ns.map (convert c.pkgStyle)

def javaName (c : GCfg) (d : Decl) : String :=
  if d.kind == .function && d.anonymous then title d.name else convert c.type (baseName .java d)

/-- `ObjcBaseType.name` / `ObjcRecord.name`: prefix, converted `_`-joined namespace, converted name — concatenated -/
def objcName (c : GCfg) (d : Decl) : String :=
  c.typePrefix ++ convert c.type ("_".intercalate d.ns) ++ convert c.type (baseName .objc d)

def objcppName (d : Decl) : String :=
  if d.kind == .function && d.anonymous then title d.name else convert .pascal d.name

/-- the marshalling property `header` (for generators that write headers) -/
def relHeader (g : G) (c : GCfg) (d : Decl) : Path :=
  match g with
  | .cpp => .rel (d.ns ++ [convert c.file (baseName .cpp d) ++ "." ++ c.headerExt])
  | .cppcli => .rel (d.ns ++ [convert c.file (baseName .cppcli d) ++ ".hpp"])
  | .jni => .rel [convert c.file d.name ++ "." ++ c.headerExt]
  | .objc => .rel [objcName c d ++ "." ++ c.headerExt]
  | .objcpp => .rel [objcppName d ++ "+Private." ++ c.headerExt]
  | .java => .rel []
  | .yaml => .rel []

/-- the marshalling property `source` -/
def relSource (g : G) (c : GCfg) (d : Decl) : Path :=
  match g with
  | .cpp => .rel (d.ns ++ [convert c.file (baseName .cpp d) ++ "." ++ c.sourceExt])
  | .cppcli => .rel (d.ns ++ [convert c.file (baseName .cppcli d) ++ ".cpp"])
  | .jni => .rel [convert c.file d.name ++ "." ++ c.sourceExt]
  | .objc => .rel [objcName c d ++ "." ++ c.sourceExt]
  | .objcpp => .rel [objcppName d ++ "+Private." ++ c.sourceExt]
  | .java => .rel (javaPackage c d ++ [javaName c d ++ ".java"])
  | .yaml => .rel [d.name ++ ".yaml"]

/-- which of header/source `generate_<kind>` writes, in order (`generator/*/*/generator.py`).
    Names come from the marshalling configuration `cm`, switches from the current one `cc`. -/
def declFiles (g : G) (cm cc : GCfg) (d : Decl) : List (FKind × Path) :=
  let h := (FKind.header, relHeader g cm d)
  let s := (FKind.source, relSource g cm d)
  match g, d.kind with
  | .cpp, .enum => if cc.stringSer then [h, s] else [h]
  | .cpp, .flags => if cc.stringSer then [h, s] else [h]
  | .cpp, .record =>
    if d.derivingEq || d.derivingOrd || ((cc.stringSer && !isBase .cpp d) && d.hasFields) then [h, s] else [h]
  | .cpp, _ => [h]
  | .java, _ => [s]
  | .jni, .enum => [h]
  | .jni, .flags => [h]
  | .jni, _ => [h, s]
  | .objc, .record => [h, s]
  | .objc, .error => [h, s]
  | .objc, _ => [h]
  | .objcpp, .enum => [h]
  | .objcpp, .flags => [h]
  | .objcpp, _ => [h, s]
  | .cppcli, _ => [h, s]
  | .yaml, _ => []

def asyncOn (target : String) (ds : List Decl) : Bool :=
  ds.any (fun d => d.kind == .interface && d.targets.contains target && d.asyncMethods)

def coroutine (file : String) : Path := .rel ["pydjinni", "coroutine", file]

/-- files written after the per-type loop, with the file names the generators pass -/
def extraFiles (g : G) (cc : GCfg) (ds : List Decl) : List (FKind × Path) :=
  match g with
  | .java =>
    let pkg := cc.package ++ cc.support
    [(FKind.source, Path.rel (pkg ++ ["NativeCleaner.java"]))]
    ++ (match cc.nativeLib with
        | some lib => [(FKind.source, Path.rel (pkg ++ ["Native" ++ lib ++ "Loader.java"]))]
        | none => [])
    ++ (if asyncOn "cpp" ds then [(FKind.source, Path.rel (pkg ++ ["NativeRunnable.java"]))] else [])
    ++ (if asyncOn "java" ds then [(FKind.source, Path.rel (pkg ++ ["NativeCompletion.java"]))] else [])
  | .jni =>
    (if cc.loader then [(FKind.source, Path.rel ["loader.cpp"])] else [])
    ++ (if asyncOn "cpp" ds then [(FKind.header, coroutine "schedule.hpp"), (FKind.source, coroutine "schedule.cpp")] else [])
    ++ (if asyncOn "java" ds then [(FKind.header, coroutine "completion.hpp"), (FKind.source, coroutine "completion.cpp")] else [])
  | .objc => (match cc.bridging with | some p => [(FKind.header, p)] | none => [])
  | _ => []

/-- the YAML generator: one file per named type, or everything in `out_file` -/
def yamlFiles (cc : GCfg) (ds : List Decl) : List (FKind × Path) :=
  let named := ds.filter (fun d => !(d.kind == .function && d.anonymous))
  match cc.outFile with
  | some f => [(FKind.source, f)]
  | none => named.map (fun d => (FKind.source, relSource .yaml cc d))

/-- relative names of one generator run in write order. `support`: the support-library files
    (relative to the output directories) that `generate_support_lib` copies, `[]` if switched off -/
def genRel (g : G) (cm cc : GCfg) (support : List (FKind × Path)) (ds : List Decl) : List (FKind × Path) :=
  match g with
  | .yaml => yamlFiles cc ds
  | _ => support ++ ds.flatMap (declFiles g cm cc) ++ extraFiles g cc ds

/-- `self.header_path / filename`, `self.source_path / filename` -/
def place (cc : GCfg) (f : FKind × Path) : FKind × Path := (f.1, (cc.dir f.1).join f.2)

def genWrites (g : G) (cm cc : GCfg) (support : List (FKind × Path)) (ds : List Decl) : List (FKind × Path) :=
  (genRel g cm cc support ds).map (place cc)

/-- The pinned tree passed `self.source_path / "loader.cpp"` (and likewise for schedule/completion) as the
    *file name*, which `write_source` joins with `source_path` once more. Kept for the counterexample. -/
def legacyJniLoader (cc : GCfg) : Path := cc.out.source.join (cc.out.source.join (.rel ["loader.cpp"]))

/-- a path component that is an ordinary name -/
def cleanComp (s : String) : Bool := s != "" && s != "." && s != ".." && !s.toList.contains '/'

def Path.clean (p : Path) : Bool := !p.abs && p.parts.all cleanComp

end Pydjinni.GenC
