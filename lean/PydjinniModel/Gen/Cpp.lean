import PydjinniModel.Gen.Types
/-!
# C++ marshalling (`generator/cpp/cpp/type.py`) and the declarations of the C++ header templates

`cppSpec` is `CppBaseCommentModel._type_specifier`; the recursion over generic arguments and over the
signature of function types is structural (explicit helpers per container).
-/
namespace Pydjinni.Gen

/-- `CppBaseType.namespace` -/
def cppNamespace (c : CppCfg) (ns : List String) : String :=
  joinS "::" (c.ns ++ ns.map (convert c.nsStyle))

/-- `CppBaseType.typename` / `CppRecord.typename` (both use the *derived* name) -/
def cppUserTypename (c : CppCfg) (u : UInfo) : String :=
  let n := "::" ++ convert c.tyStyle u.name
  let nsp := cppNamespace c u.ns
  if nsp.isEmpty then n else "::" ++ nsp ++ n

/-- `…cpp.by_value`: built-ins from the table; enums and flags by value; everything else by reference -/
def cppByValue : TDef → Bool
  | .builtin b => b.cppByValue
  | .user u => u.prim == .enum || u.prim == .flags
  | .func _ _ _ _ _ => false

/-! The three steps of `_type_specifier` on an already computed name: generic arguments, the
    optional / interface wrapper, the parameter-position wrapper. -/

/-- interfaces are shared pointers (wrapped in the configured `not_null` where requested and not optional);
    other optional types except functions are `std::optional` -/
def cppWrap (c : CppCfg) (prim : Prim) (optional useNotNull : Bool) (out : String) : String :=
  if prim == .interface then
    let o := "std::shared_ptr<" ++ out ++ ">"
    match c.notNull with
    | some nn => if useNotNull && !nn.isEmpty && !optional then nn ++ "<" ++ o ++ ">" else o
    | none => o
  else if optional && prim != .function then "std::optional<" ++ out ++ ">" else out

/-- `f"const {output} &" if is_parameter and not by_value else output` -/
def cppPlace (byValue isParam : Bool) (out : String) : String :=
  if isParam && !byValue then "const " ++ out ++ " &" else out

mutual
/-- `type_def.cpp.typename` -/
def cppTypename (c : CppCfg) : TDef → String
  | .builtin b => b.cppTypename
  | .user u => cppUserTypename c u
  | .func _ _ _ params ret => "std::function<" ++ cppSpecO c ret ++ "(" ++ joinS "," (cppSpecs c params) ++ ")>"
/-- `_type_specifier(type_ref, is_parameter, use_notnull)` -/
def cppSpec (c : CppCfg) : RType → Bool → Bool → String
  | .mk d args optional, isParam, useNotNull =>
    cppPlace (cppByValue d) isParam (cppWrap c d.prim optional useNotNull (applyArgs (cppTypename c d) (cppSpecs c args)))
/-- the recursive calls `self._type_specifier(parameter)` (defaults: not a parameter, no not_null) -/
def cppSpecs (c : CppCfg) : List RType → List String
  | [] => []
  | t :: ts => cppSpec c t false false :: cppSpecs c ts
/-- `_type_specifier(None)` is `void` -/
def cppSpecO (c : CppCfg) : Option RType → String
  | none => "void"
  | some t => cppSpec c t false false
end

/-- `_type_specifier` on an optional reference with flags (return types) -/
def cppSpecOpt (c : CppCfg) (t : Option RType) (isParam useNotNull : Bool) : String :=
  match t with
  | none => "void"
  | some t => cppSpec c t isParam useNotNull

/-- `type_def.cpp.header` -/
def cppHeader (c : CppCfg) : TDef → String
  | .builtin b => b.cppHeader
  | .user u =>
    let base := u.prim == .record && u.targets.contains "cpp"
    let fname := if base then convert c.fileStyle (u.name ++ "_base") else convert c.fileStyle u.name
    joinS "/" (u.ns ++ [fname ++ "." ++ c.headerExt])
  | .func u _ _ _ _ => joinS "/" (u.ns ++ [convert c.fileStyle u.name ++ "." ++ c.headerExt])

/-- `CppMethod.type_spec` -/
def cppMethodRet (c : CppCfg) (m : MethodD) : String :=
  if !m.isAsync then cppSpecOpt c m.ret false true
  else "pydjinni::coroutine::task<" ++ cppSpecOpt c m.ret false false ++ ">"

/-- `CppMethod.prefix_specifiers(implementation=False)` as words -/
def cppPrefix (m : MethodD) : List String :=
  (if m.ret.isSome && m.isConst then ["[[nodiscard]]"] else []) ++
  (if m.isStatic then ["static"] else ["virtual"])

/-- `CppMethod.postfix_specifiers(implementation=False)` as words -/
def cppPostfix (m : MethodD) : List String :=
  (if m.isConst then ["const"] else []) ++
  (if m.throwing.isNone then ["noexcept"] else []) ++
  (if !m.isStatic then ["=", "0"] else [])

def cppParam (c : CppCfg) (p : FieldD) : MemberS := { ty := cppSpec c p.ty true true, name := convert c.fieldStyle p.name }
def cppField (c : CppCfg) (f : FieldD) : MemberS := { ty := cppSpec c f.ty false false, name := convert c.fieldStyle f.name }

def cppMethod (c : CppCfg) (m : MethodD) : MethodS :=
  { pre := cppPrefix m, ret := cppMethodRet c m, name := convert c.methodStyle m.name,
    params := m.params.map (cppParam c), post := cppPostfix m }

def cppCode (c : CppCfg) (k : CodeD) : CodeS :=
  { name := convert c.tyStyle k.name, fields := k.params.map (cppParam c), ctor := k.params.map (cppParam c) }

/-- `CppRecord.name` -/
def cppDeclName (c : CppCfg) (u : UInfo) : String :=
  if u.prim == .record && u.targets.contains "cpp" then convert c.tyStyle (u.name ++ "_base") else convert c.tyStyle u.name

/-- what the C++ header of a declaration declares (templates `header/*.jinja2.hpp`) -/
def cppSkel (c : CppCfg) : Decl → DeclS
  | .enum u items =>
    { DeclS.empty with
      kind := "enum", name := cppDeclName c u, scope := cppNamespace c u.ns, items := items.map (convert c.enumStyle) }
  | .flags u items =>
    { DeclS.empty with
      kind := "flags", name := cppDeclName c u, scope := cppNamespace c u.ns, items := items.map (fun f => convert c.enumStyle f.name) }
  | .record u fields _ _ =>
    { DeclS.empty with
      kind := "struct", name := cppDeclName c u, scope := cppNamespace c u.ns,
      mods := if u.targets.contains "cpp" then [] else ["final"],
      -- fields are `const <type_spec> <name>;`, the constructor takes `<type_spec> <name>` (field position, not parameter position)
      fields := fields.map (cppField c), ctor := fields.map (cppField c) }
  | .interface u methods =>
    { DeclS.empty with
      kind := "class", name := cppDeclName c u, scope := cppNamespace c u.ns, methods := methods.map (cppMethod c) }
  | .function u _ _ _ _ =>
    -- header/function.jinja2.hpp declares nothing (the type is `std::function<…>`)
    { DeclS.empty with
      kind := "none", scope := cppNamespace c u.ns }
  | .error u codes =>
    { DeclS.empty with
      kind := "error", name := cppDeclName c u, scope := cppNamespace c u.ns,
      -- `const {{ parameter.cpp.type_spec }} name;` — the parameter-position type is used for the member as well
      codes := codes.map (cppCode c) }

end Pydjinni.Gen
