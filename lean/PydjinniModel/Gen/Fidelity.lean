import PydjinniModel.Gen.Ref
import PydjinniModel.Lang.CTok
/-!
# C02 specification: the declared API mirrors the IDL declaration

`fidelity target cfg decl skel` lists the clauses that a declaration skeleton (extracted from a generated
file, or computed by the model) violates against the IDL declaration:

* `…-count`  as many fields / parameters / methods / items as the IDL declares,
* `…-order`  the same members but in another order,   `…-names`  names are not `convert style name`,
* `…-types`  a written type is not the reference mapping of the IDL type (`printT (ref… t)`),
* `mods`, `method-mods`  class / method modifiers differ from the modifier table
  (static ↔ `static`; instance ↔ `virtual … = 0` / `abstract`; const ↔ `const`; no `throws` ↔ `noexcept`;
   `[[nodiscard]]` iff const and returning; thrown domains listed),
* `name`, `scope`, `kind`.

Types are compared in the white-space-insensitive canonical form of `Lang/CTok`.
-/
namespace Pydjinni.Gen
open Pydjinni.Lang

inductive Target | cpp | java | objc | cppcli
deriving DecidableEq, Repr

def Target.ofString? : String → Option Target
  | "cpp" => some .cpp | "java" => some .java | "objc" => some .objc | "cppcli" => some .cppcli | _ => none

/-- a member the specification expects: converted name and reference type -/
structure Want where
  ty : TExp
  name : String

def isPermOf (a b : List String) : Bool :=
  a.length == b.length && a.all (fun x => a.count x == b.count x)

/-- leading `const` qualifiers of a C++ data member are not part of the compared type -/
def dropConst (toks : List String) : List String := toks.dropWhile (· == "const")

def cmpTy (dropLeadingConst : Bool) (s : String) : List String :=
  if dropLeadingConst then dropConst (tokens s) else tokens s

def membersOk (label : String) (dc : Bool) (want : List Want) (got : List MemberS) : List String :=
  let wn := want.map (·.name)
  let gn := got.map (·.name)
  (if got.length != want.length then [label ++ "-count"] else
    (if gn != wn then [label ++ (if isPermOf gn wn then "-order" else "-names")] else []) ++
    (if got.map (fun m => cmpTy dc m.ty) != want.map (fun w => cmpTy dc (printT w.ty)) then [label ++ "-types"] else []))

structure WantMethod where
  pre : List String
  ret : TExp
  name : String
  params : List Want
  post : List String

def methodOk (w : WantMethod) (g : MethodS) : List String :=
  (if g.name != w.name then ["method-names"] else []) ++
  (if tokens g.ret != tokens (printT w.ret) then ["method-return-types"] else []) ++
  (if g.pre != w.pre || g.post != w.post then ["method-mods"] else []) ++
  (membersOk "param" false w.params g.params)

def methodsOk (want : List WantMethod) (got : List MethodS) : List String :=
  if got.length != want.length then ["method-count"] else
  let wn := want.map (·.name)
  let gn := got.map (·.name)
  if gn != wn && isPermOf gn wn then ["method-order"] else
  (List.zipWith methodOk want got).flatten.eraseDups

def itemsOk (want got : List String) : List String :=
  if got.length != want.length then ["item-count"]
  else if got != want then [if isPermOf got want then "item-order" else "item-names"] else []

structure WantCode where
  name : String
  fields : List Want
  ctor : List Want
  /-- modifier words of the fields, one entry per field (`[]`: not recorded for the target) -/
  fmods : List String := []
  /-- accessors of the fields -/
  methods : List WantMethod := []

/-- one error code: its fields (names, types, modifiers), the parameters of its constructor and the accessors of its fields
    (`code-method-count`, `code-method-names`, `code-method-return-types`, `code-method-mods`, `code-param-…`) -/
def codeOk (dc : Bool) (w : WantCode) (g : CodeS) : List String :=
  membersOk "code-field" dc w.fields g.fields ++ membersOk "code-ctor" false w.ctor g.ctor ++
  (if g.fmods != w.fmods then ["code-field-mods"] else []) ++
  (methodsOk w.methods g.methods).map ("code-" ++ ·)

def codesOk (dc : Bool) (want : List WantCode) (got : List CodeS) : List String :=
  if got.length != want.length then ["code-count"] else
  let wn := want.map (·.name)
  let gn := got.map (·.name)
  if gn != wn then [if isPermOf gn wn then "code-order" else "code-names"] else
  (List.zipWith (codeOk dc) want got).flatten.eraseDups

structure WantDecl where
  kind : String
  name : String
  scope : String
  mods : List String
  fields : List Want := []
  ctor : List Want := []
  methods : List WantMethod := []
  items : List String := []
  codes : List WantCode := []
  /-- C++: data members are `const`-qualified -/
  constFields : Bool := false
  /-- modifier words of the fields, one entry per field (`[]`: not recorded for the target) -/
  fmods : List String := []

def declOk (w : WantDecl) (g : DeclS) : List String :=
  (if g.kind != w.kind then ["kind"] else []) ++
  (if g.name != w.name then ["name"] else []) ++
  (if g.scope != w.scope then ["scope"] else []) ++
  (if g.mods != w.mods then ["mods"] else []) ++
  (if g.fmods != w.fmods then ["field-mods"] else []) ++
  membersOk "field" w.constFields w.fields g.fields ++
  membersOk "ctor" false w.ctor g.ctor ++
  methodsOk w.methods g.methods ++
  itemsOk w.items g.items ++
  codesOk w.constFields w.codes g.codes

/-! ## what each target has to declare -/

def baseName (target : String) (u : UInfo) : String :=
  if u.prim == .record && u.targets.contains target then u.name ++ "_base" else u.name

def cppWantField (c : CppCfg) (f : FieldD) : Want := { ty := refCpp c f.ty .field, name := convert c.fieldStyle f.name }
def cppWantParam (c : CppCfg) (f : FieldD) : Want := { ty := refCpp c f.ty .param, name := convert c.fieldStyle f.name }

/-- the modifier table of a C++ method: static ↔ `static`; instance ↔ `virtual … = 0`; const ↔ `const`;
    no `throws` ↔ `noexcept`; `[[nodiscard]]` iff const and returning; async ↔ `task<…>` -/
def cppWantMethod (c : CppCfg) (m : MethodD) : WantMethod :=
  { pre := (if m.ret.isSome && m.isConst then ["[[nodiscard]]"] else []) ++ [if m.isStatic then "static" else "virtual"],
    ret := (match m.ret, m.isAsync with
      | some r, false => refCpp c r .result
      | none, false => .atom "void"
      | some r, true => wrap1 "pydjinni::coroutine::task" (refCppCore c r)
      | none, true => wrap1 "pydjinni::coroutine::task" (.atom "void")),
    name := convert c.methodStyle m.name, params := m.params.map (cppWantParam c),
    post := (if m.isConst then ["const"] else []) ++ (if m.throwing.isNone then ["noexcept"] else []) ++ (if m.isStatic then [] else ["=", "0"]) }

def cppWantCode (c : CppCfg) (k : CodeD) : WantCode :=
  { name := convert c.tyStyle k.name, fields := k.params.map (cppWantParam c), ctor := k.params.map (cppWantParam c) }

def wantCpp (c : CppCfg) (d : Decl) : WantDecl :=
  let u := d.info
  let common : WantDecl := { kind := "none", name := convert c.tyStyle (baseName "cpp" u), scope := cppNamespace c u.ns, mods := [], constFields := true }
  match d with
  | .enum _ items => { common with kind := "enum", items := items.map (convert c.enumStyle) }
  | .flags _ items => { common with kind := "flags", items := items.map (fun f => convert c.enumStyle f.name) }
  | .record _ fields _ _ =>
    { common with
      kind := "struct", mods := if u.targets.contains "cpp" then [] else ["final"],
      fields := fields.map (cppWantField c), ctor := fields.map (cppWantField c) }
  | .interface _ methods => { common with kind := "class", methods := methods.map (cppWantMethod c) }
  | .function _ _ _ _ _ => { common with name := "" }
  | .error _ codes => { common with kind := "error", codes := codes.map (cppWantCode c) }

def javaWantMember (c : JavaCfg) (f : FieldD) : Want := { ty := refJava c f.ty false, name := convert c.fieldStyle f.name }

def javaWantGetter (c : JavaCfg) (f : FieldD) : WantMethod :=
  { pre := ["public"], ret := refJava c f.ty false, name := convert c.methodStyle ("get_" ++ f.name), params := [], post := [] }

/-- thrown error domains are listed by their simple class names, for synchronous methods only -/
def javaWantThrows (c : JavaCfg) (m : MethodD) : List String :=
  match m.throwing with
  | some l => if m.isAsync then [] else l.map (fun e => javaTypename c e)
  | none => []

def javaWantMethod (c : JavaCfg) (m : MethodD) : WantMethod :=
  { pre := ["public", if m.isStatic then "static" else "abstract"], ret := refJavaRet c m.ret m.isAsync,
    name := convert c.methodStyle m.name, params := m.params.map (javaWantMember c), post := javaWantThrows c m }

/-- fields of records and of error codes are `final` iff `use_final_for_record` -/
def javaWantFieldMod (c : JavaCfg) : String := if c.useFinal then "final" else ""

/-- an error code exposes each parameter like a record exposes a field: field, constructor parameter, getter -/
def javaWantCode (c : JavaCfg) (k : CodeD) : WantCode :=
  { name := convert c.tyStyle k.name, fields := k.params.map (javaWantMember c), ctor := k.params.map (javaWantMember c),
    fmods := k.params.map (fun _ => javaWantFieldMod c), methods := k.params.map (javaWantGetter c) }

def wantJava (c : JavaCfg) (d : Decl) : WantDecl :=
  let u := d.info
  let pub : List String := if c.classPublic then ["public"] else []
  let anonymous := match d with | .function _ a _ _ _ => a | _ => false
  let common : WantDecl :=
    { kind := "none", scope := javaPackage c u.ns, mods := [],
      name := if u.prim == .function && anonymous then title u.name else convert c.tyStyle (baseName "java" u) }
  match d with
  | .enum _ items => { common with
      kind := "enum", items := items.map (convert c.enumStyle) }
  | .flags _ items => { common with
      kind := "flags", items := (items.filter (fun f => !(f.isNone || f.isAll))).map (fun f => convert c.enumStyle f.name) }
  | .record _ fields _ _ =>
    { common with
      kind := "struct", mods := pub ++ (if c.useFinal && !u.targets.contains "java" then ["final"] else []),
      fields := fields.map (javaWantMember c), ctor := fields.map (javaWantMember c), methods := fields.map (javaWantGetter c),
      fmods := fields.map (fun _ => javaWantFieldMod c) }
  | .interface _ methods =>
    { common with
      kind := "class", mods := pub ++ ["abstract"], methods := methods.map (javaWantMethod c) }
  | .function _ _ params ret _ =>
    { common with
      kind := "function", mods := pub,
      methods := [{ pre := [], ret := refJavaRet c ret false, name := "invoke", params := params.map (javaWantMember c), post := [] }] }
  | .error _ codes =>
    { common with
      kind := "error", codes := codes.map (javaWantCode c) }

def annT (ann : String) (e : TExp) : TExp := if ann.isEmpty then e else .suffix (.atom ann) (printT e)

def objcWantMember (c : ObjcCfg) (parameter : Bool) (f : FieldD) : Want :=
  { ty := annT (refObjcAnnotation (some f.ty) false) (refObjc c f.ty parameter false), name := convert c.fieldStyle f.name }

/-- the completion block of an asynchronous method -/
def objcWantCompletion (c : ObjcCfg) (m : MethodD) : TExp :=
  if m.ret.isNone && !m.throwing.isNone then .atom "nonnull void (^)(NSError* _Nullable)"
  else .atom ("nonnull void (^)(" ++ printT (refObjcO c m.ret) ++ " " ++ refObjcAnnotation m.ret true ++ (if m.throwing.isNone then "" else ", NSError* _Nullable") ++ ")")

/-- asynchronous methods take a completion block, throwing ones an `NSError**` slot -/
def objcWantMethod (c : ObjcCfg) (m : MethodD) : WantMethod :=
  { pre := [if m.isStatic then "+" else "-"],
    ret := if m.isAsync then .atom "void" else annT (refObjcAnnotation m.ret false) (refObjcO c m.ret),
    name := convert c.methodStyle m.name,
    params := m.params.map (objcWantMember c true) ++
      (if m.isAsync then [{ ty := objcWantCompletion c m, name := "completion" }]
       else if m.throwing.isSome then [{ ty := .atom "NSError* _Nullable * _Nonnull", name := "error" }] else []),
    post := [] }

def objcWantName (c : ObjcCfg) (u : UInfo) : String := c.typePrefix ++ objcNamespace c u.ns ++ convert c.tyStyle (baseName "objc" u)

def wantObjc (c : ObjcCfg) (d : Decl) : WantDecl :=
  let u := d.info
  let n := objcWantName c u
  let common : WantDecl := { kind := "none", name := n, scope := "", mods := [] }
  match d with
  | .enum _ items => { common with
      kind := "enum", items := items.map (fun i => n ++ convert c.enumStyle i) }
  | .flags _ items => { common with
      kind := "flags", items := items.map (fun f => n ++ convert c.enumStyle f.name) }
  | .record _ fields _ derivingOrd =>
    let initName := match fields with | f :: _ => convert c.methodStyle ("init_with_" ++ f.name) | [] => "init"
    let convName := match fields with | f :: _ => convert c.methodStyle (baseName "objc" u ++ "_with_" ++ f.name) | [] => convert c.methodStyle u.name
    { common with
      kind := "struct", mods := ["interface"], fields := fields.map (objcWantMember c false), ctor := fields.map (objcWantMember c false),
      methods := [{ pre := ["-"], ret := .atom "nonnull instancetype", name := initName, params := fields.map (objcWantMember c false), post := [] },
                  { pre := ["+"], ret := .atom "nonnull instancetype", name := convName, params := fields.map (objcWantMember c false), post := [] }] ++
                 (if derivingOrd then [{ pre := ["-"], ret := .atom "NSComparisonResult", name := "compare", params := [{ ty := .atom ("nonnull " ++ n ++ " *"), name := "other" }], post := [] }] else []) }
  | .interface _ methods =>
    { common with
      kind := "class", mods := if u.targets.contains "objc" then ["protocol"] else ["interface"],
      methods := methods.map (objcWantMethod c) }
  | .function _ _ _ _ _ => { common with name := "" }
  | .error _ codes =>
    { common with
      kind := "error", items := codes.map (fun k => n ++ convert c.tyStyle k.name),
      fields := codes.flatMap (fun k => k.params.map (fun p => { ty := .atom "NSErrorUserInfoKey", name := objcUserTypename c u ++ convert c.tyStyle k.name ++ convert c.tyStyle p.name })) }

/-- nullability attribute of a parameter (when enabled): `AllowNull` iff optional -/
def cliWantAttr (c : CliCfg) (o : Bool) : String :=
  if c.nullability then (if o then "[System::Diagnostics::CodeAnalysis::AllowNull] " else "[System::Diagnostics::CodeAnalysis::DisallowNull] ") else ""

def cliWantParam (c : CliCfg) (f : FieldD) : Want :=
  { ty := .atom (cliWantAttr c f.ty.optional ++ printT (refCli c f.ty)), name := convert c.localStyle f.name }
def cliWantPlainParam (c : CliCfg) (f : FieldD) : Want := { ty := refCli c f.ty, name := convert c.localStyle f.name }
def cliWantProp (c : CliCfg) (f : FieldD) : Want := { ty := refCli c f.ty, name := convert c.propertyStyle f.name }

def cliWantMethod (c : CliCfg) (m : MethodD) : WantMethod :=
  { pre := [if m.isStatic then "static" else "virtual"], ret := refCliRet c m.ret m.isAsync, name := convert c.methodStyle m.name,
    params := m.params.map (cliWantParam c), post := if m.isStatic then [] else ["abstract"] }

def cliWantCode (c : CliCfg) (k : CodeD) : WantCode :=
  { name := convert c.tyStyle k.name, fields := k.params.map (cliWantProp c), ctor := k.params.map (cliWantPlainParam c) }

def wantCli (c : CliCfg) (d : Decl) : WantDecl :=
  let u := d.info
  let common : WantDecl := { kind := "none", name := convert c.tyStyle (baseName "cppcli" u), scope := cliNamespace c u.ns, mods := [] }
  match d with
  | .enum _ items => { common with
      kind := "enum", items := items.map (convert c.enumStyle) }
  | .flags _ items => { common with
      kind := "flags", items := items.map (fun f => convert c.enumStyle f.name) }
  | .record _ fields _ _ =>
    { common with
      kind := "struct", mods := [if u.targets.contains "cppcli" then "abstract" else "sealed"],
      fields := fields.map (cliWantProp c), ctor := fields.map (cliWantParam c) }
  | .interface _ methods =>
    { common with
      kind := "class", mods := ["abstract"], methods := methods.map (cliWantMethod c) }
  | .function _ anonymous params ret _ =>
    if anonymous then { common with name := "" }
    else { common with
      kind := "function",
      methods := [{ pre := [], ret := refCliRet c ret false, name := convert c.tyStyle (baseName "cppcli" u), params := params.map (cliWantParam c), post := [] }] }
  | .error _ codes =>
    { common with
      kind := "error", codes := codes.map (cliWantCode c) }

def want (t : Target) (c : Cfg) (d : Decl) : WantDecl :=
  match t with
  | .cpp => wantCpp c.cpp d
  | .java => wantJava c.java d
  | .objc => wantObjc c.objc d
  | .cppcli => wantCli c.cli d

/-- the violated clauses of the C02 specification (empty = the declaration mirrors the IDL) -/
def fidelity (t : Target) (c : Cfg) (d : Decl) (g : DeclS) : List String := declOk (want t c d) g

/-- the model's skeleton of a declaration -/
def apiSkel (t : Target) (c : Cfg) (d : Decl) : DeclS :=
  match t with
  | .cpp => cppSkel c.cpp d
  | .java => javaSkel c.java d
  | .objc => objcSkel c.objc d
  | .cppcli => cliSkel c.cli d

end Pydjinni.Gen
