import PydjinniModel.Gen.Ident
/-!
# Input of the generator layer: resolved type references, declarations, configuration

The marshalling models (`Gen/Cpp`, `Gen/Java`, `Gen/Jni`, `Gen/Objc`, `Gen/CppCli`) take the AST *after*
resolution, as the real marshalling classes do (`type_ref.type_def` is the resolved definition).
The harness dumps this from the real parser's AST, so the front end (C03–C05) is not re-modelled here.

`RType` / `TDef` are mutually recursive because a function type's written name is computed from its
signature in every target (`std::function<R(P…)>`, the Objective-C block type, `System::Func<…>`, the JNI
invoke signature).  The front end rejects nothing here, but a function type that mentions itself makes
the real generators recurse for ever (DESIGN §9 row 50); as a finite tree it cannot be expressed.
-/
namespace Pydjinni.Gen

inductive Prim | primitive | collection | interface | record | enum | flags | function | error
deriving DecidableEq, Repr, Inhabited

def Prim.ofString? : String → Option Prim
  | "primitive" => some .primitive | "collection" => some .collection | "interface" => some .interface
  | "record" => some .record | "enum" => some .enum | "flags" => some .flags | "function" => some .function
  | "error" => some .error | _ => none

/-- structured Java type (what `javac` sees); `Lang/JavaDesc` gives its JVM descriptor -/
inductive JType
  | prim (p : String)
  | cls (pkg : List String) (name : String) (args : List JType)
  | arr (e : JType)
deriving Repr, Inhabited

/-- one row of the built-in type tables of all generators (`API().internal_types`), read from the live
    source by the translator on every run -/
structure Builtin where
  name : String
  prim : Prim
  cppTypename : String
  cppHeader : String
  cppByValue : Bool
  javaTypename : String
  javaBoxed : String
  javaReference : Bool
  /-- `java.typename` / `java.boxed` parsed by the translator; the driver and the generated obligations
      check `printJ javaJ = javaTypename` -/
  javaJ : JType
  javaBoxedJ : JType
  jniTranslator : String
  jniTypename : String
  jniSig : String
  jniBoxedSig : String
  objcTypename : String
  objcBoxed : String
  objcPointer : Bool
  cliTypename : String
  cliTranslator : String
  cliReference : Bool
deriving Repr, Inhabited

/-- what the marshalling classes read from a user declaration when it is *referred to* -/
structure UInfo where
  name : String
  ns : List String
  prim : Prim
  /-- `decl.targets` (records: the written flags; interfaces / functions: written flags or all keys) -/
  targets : List String
deriving Repr, Inhabited

mutual
/-- `TypeReference` after resolution -/
inductive RType
  | mk (d : TDef) (args : List RType) (optional : Bool)
/-- `type_ref.type_def` -/
inductive TDef
  | builtin (b : Builtin)
  | user (u : UInfo)
  | func (u : UInfo) (anonymous : Bool) (noexcept : Bool) (params : List RType) (ret : Option RType)
end

instance : Inhabited TDef := ⟨.user default⟩
instance : Inhabited RType := ⟨.mk default [] false⟩

def TDef.prim : TDef → Prim
  | .builtin b => b.prim
  | .user u => u.prim
  | .func _ _ _ _ _ => .function

def TDef.targets : TDef → List String
  | .builtin _ => []
  | .user u => u.targets
  | .func u _ _ _ _ => u.targets

def RType.def' : RType → TDef | .mk d _ _ => d
def RType.args : RType → List RType | .mk _ a _ => a
def RType.optional : RType → Bool | .mk _ _ o => o

/-- a record field / a parameter -/
structure FieldD where
  name : String
  ty : RType
deriving Inhabited

structure MethodD where
  name : String
  params : List FieldD
  ret : Option RType
  isStatic : Bool
  isConst : Bool
  isAsync : Bool
  /-- `None` = no `throws`; `some l` = `throws` with the listed error domains (possibly empty) -/
  throwing : Option (List TDef)
deriving Inhabited

structure FlagD where
  name : String
  isAll : Bool
  isNone : Bool
deriving Inhabited, Repr

structure CodeD where
  name : String
  params : List FieldD
deriving Inhabited

inductive Decl
  | enum (u : UInfo) (items : List String)
  | flags (u : UInfo) (items : List FlagD)
  | record (u : UInfo) (fields : List FieldD) (derivingEq derivingOrd : Bool)
  | interface (u : UInfo) (methods : List MethodD)
  | function (u : UInfo) (anonymous : Bool) (params : List FieldD) (ret : Option RType) (throwing : Option (List TDef))
  | error (u : UInfo) (codes : List CodeD)
deriving Inhabited

def Decl.info : Decl → UInfo
  | .enum u _ | .flags u _ | .record u _ _ _ | .interface u _ | .function u _ _ _ _ | .error u _ => u

/-- the `primitive` recorded in a declaration's info is the one of its kind (what the parser guarantees) -/
def Decl.wf : Decl → Bool
  | .enum u _ => u.prim == .enum
  | .flags u _ => u.prim == .flags
  | .record u _ _ _ => u.prim == .record
  | .interface u _ => u.prim == .interface
  | .function u _ _ _ _ => u.prim == .function
  | .error u _ => u.prim == .error

/-! ## Configuration (the parts the modelled functions read) -/

structure CppCfg where
  ns : List String
  tyStyle : Style
  enumStyle : Style
  fileStyle : Style
  fieldStyle : Style
  methodStyle : Style
  nsStyle : Style
  headerExt : String
  /-- `cpp.not_null.type` -/
  notNull : Option String
deriving Inhabited

structure JavaCfg where
  package : List String
  tyStyle : Style
  fieldStyle : Style
  methodStyle : Style
  enumStyle : Style
  packageStyle : Style
  nullable : Option String
  nonnull : Option String
  classPublic : Bool
  useFinal : Bool
  supportPackage : List String
deriving Inhabited

structure JniCfg where
  ns : List String
  fileStyle : Style
  classStyle : Style
  enumStyle : Style
  fieldStyle : Style
  methodStyle : Style
  nsStyle : Style
  headerExt : String
deriving Inhabited

structure ObjcCfg where
  typePrefix : String
  tyStyle : Style
  enumStyle : Style
  fieldStyle : Style
  methodStyle : Style
  headerExt : String
  strictProtocols : Bool
  swiftRename : Bool
deriving Inhabited

structure CliCfg where
  ns : List String
  tyStyle : Style
  propertyStyle : Style
  methodStyle : Style
  localStyle : Style
  enumStyle : Style
  fileStyle : Style
  nsStyle : Style
  nullability : Bool
deriving Inhabited

structure Cfg where
  cpp : CppCfg
  java : JavaCfg
  jni : JniCfg
  objc : ObjcCfg
  objcppHeaderExt : String
  cli : CliCfg
deriving Inhabited

/-! ## Skeleton of a generated API declaration (what C02 compares with the extracted file skeleton) -/

/-- a typed name: field, property, parameter -/
structure MemberS where
  ty : String
  name : String
deriving Repr, DecidableEq, Inhabited

structure MethodS where
  /-- specifier words before the return type, e.g. `[[nodiscard]]`, `static`, `virtual`, `abstract`, `+` -/
  pre : List String
  ret : String
  name : String
  params : List MemberS
  /-- specifier words after the parameter list, e.g. `const`, `noexcept`, `= 0`, `abstract`, thrown names -/
  post : List String
deriving Repr, DecidableEq, Inhabited

structure CodeS where
  name : String
  fields : List MemberS
  ctor : List MemberS
  /-- the modifier words written in front of every field, one entry per field (`"final"`, `""`); `[]` where the target's
      skeleton does not record them -/
  fmods : List String := []
  /-- the accessors declared for the fields (Java getters), in declaration order -/
  methods : List MethodS := []
deriving Repr, DecidableEq, Inhabited

structure DeclS where
  /-- `struct`, `class`, `enum`, `flags`, `error`, `function`, `none` (nothing is declared) -/
  kind : String
  name : String
  /-- namespace / package -/
  scope : String
  /-- class-level modifiers (`final`, `abstract`, `sealed`, `public`, `protocol`) -/
  mods : List String
  fields : List MemberS
  ctor : List MemberS
  methods : List MethodS
  items : List String
  codes : List CodeS
  /-- the modifier words written in front of every field, one entry per field (`"final"`, `""`); `[]` where the target's
      skeleton does not record them -/
  fmods : List String := []
deriving Repr, DecidableEq, Inhabited

def DeclS.empty : DeclS := { kind := "none", name := "", scope := "", mods := [], fields := [], ctor := [], methods := [], items := [], codes := [] }

end Pydjinni.Gen
