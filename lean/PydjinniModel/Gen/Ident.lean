/-!
# Identifier style conversion (`pydjinni/parser/identifier.py : IdentifierType.convert`)

Model on `List Char` (the theorems are about these functions); `convert` is the `String` wrapper the
driver and the other generator models call.  Python semantics kept: `str.split('_')` (empty tokens for
leading / trailing / doubled underscores), `str.capitalize()` (first character upper-cased, *the rest
lower-cased*), `str.lower()`, `str.upper()`, `str.title()` (used for anonymous function names by the
Java and JNI generators).  Identifiers of the IDL grammar are ASCII (`[a-zA-Z][a-zA-Z0-9_]*`), so the
ASCII versions of the case functions are exact.
-/
namespace Pydjinni.Gen

inductive Case | none | camel | pascal | snake | kebab | train
deriving DecidableEq, Repr, Inhabited

structure Style where
  case : Case
  pfx : Option String := none
deriving Repr, Inhabited

def Case.ofString? : String → Option Case
  | "none" => some .none | "camelCase" => some .camel | "PascalCase" => some .pascal
  | "snake_case" => some .snake | "kebab-case" => some .kebab | "TRAIN_CASE" => some .train
  | _ => Option.none

def isUpperC (c : Char) : Bool := 'A' ≤ c && c ≤ 'Z'
def isLowerC (c : Char) : Bool := 'a' ≤ c && c ≤ 'z'
def isLetterC (c : Char) : Bool := isUpperC c || isLowerC c
def up (c : Char) : Char := if isLowerC c then Char.ofNat (c.toNat - 32) else c
def lo (c : Char) : Char := if isUpperC c then Char.ofNat (c.toNat + 32) else c

def lowerL (cs : List Char) : List Char := cs.map lo
def upperL (cs : List Char) : List Char := cs.map up
/-- Python `str.capitalize()` -/
def capitalizeL : List Char → List Char
  | [] => []
  | c :: cs => up c :: cs.map lo

/-- Python `str.title()` (ASCII): the first letter of every maximal run of letters upper, the rest lower -/
def titleGo (prevLetter : Bool) : List Char → List Char
  | [] => []
  | c :: cs => (if isLetterC c then (if prevLetter then lo c else up c) else c) :: titleGo (isLetterC c) cs
def titleL (cs : List Char) : List Char := titleGo false cs

/-- Python `s.split('_')`: never empty; `"a__b" ↦ ["a","","b"]`, `"_a" ↦ ["","a"]`, `"" ↦ [""]` -/
def splitU : List Char → List (List Char)
  | [] => [[]]
  | c :: cs =>
    if c = '_' then [] :: splitU cs
    else match splitU cs with
      | [] => [[c]]
      | t :: ts => (c :: t) :: ts

/-- `convert_token(token, style, first)` -/
def convTok (k : Case) (first : Bool) (t : List Char) : List Char :=
  match k, first with
  | .camel, true => lowerL t
  | .snake, _ => lowerL t
  | .kebab, _ => lowerL t
  | .camel, false => capitalizeL t
  | .pascal, _ => capitalizeL t
  | .train, _ => upperL t
  | .none, _ => t

def link : Case → List Char
  | .train => ['_'] | .snake => ['_'] | .kebab => ['-'] | _ => []

/-- `link.join(tokens)` -/
def joinL (sep : List Char) : List (List Char) → List Char
  | [] => []
  | [t] => t
  | t :: ts => t ++ sep ++ joinL sep ts

def tokensOf (k : Case) (s : List Char) : List (List Char) := if k = .none then [s] else splitU s

/-- converted tokens: first token with `first=True`, the others with `first=False` -/
def convTokens (k : Case) : List (List Char) → List (List Char)
  | [] => []
  | t :: ts => convTok k true t :: ts.map (convTok k false)

/-- the identifier without the prefix -/
def convertBody (k : Case) (s : List Char) : List Char := joinL (link k) (convTokens k (tokensOf k s))

def pfxL (st : Style) : List Char := match st.pfx with | some p => p.toList | Option.none => []

/-- `IdentifierType.convert` on character lists -/
def convertL (st : Style) (s : List Char) : List Char := pfxL st ++ convertBody st.case s

/-- `IdentifierType(s).convert(style)` -/
def convert (st : Style) (s : String) : String := String.ofList (convertL st s.toList)

def title (s : String) : String := String.ofList (titleL s.toList)

def pascal : Style := { case := .pascal }

/-- Python `sep.join(parts)` -/
def joinS (sep : String) : List String → String
  | [] => ""
  | [x] => x
  | x :: y :: rest => x ++ sep ++ joinS sep (y :: rest)

/-- concatenation (`"".join(parts)`) -/
def concatS : List String → String
  | [] => ""
  | x :: xs => x ++ concatS xs

/-- `head<a₁, …, aₙ>` when there are type arguments (all four targets write generics this way) -/
def applyArgs (head : String) (args : List String) : String :=
  if args.isEmpty then head else head ++ "<" ++ joinS ", " args ++ ">"

end Pydjinni.Gen
