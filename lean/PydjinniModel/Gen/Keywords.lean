import PydjinniModel.Gen.Ident
/-!
# Reserved identifiers (`pydjinni/generator/validator.py`, `*/keywords.py`, the name properties of `*/type.py`)

An IDL name reaches generated code through a *name-producing property* of a marshalling class
(`CppBaseField.name`, `JavaBaseType.package`, `ObjcRecord.name`, …).  Such a property

1. composes a string from the IDL name (and namespace) with `IdentifierType.convert` under a configured
   identifier style (`Gen/Ident.lean : convert`), possibly glued to fixed affixes (`_base`, `get_`, the
   Objective-C type prefix, `::`-joined namespaces), and
2. when decorated `@validate(keywords[, separator])`, passes the *result* through `validate`: the string
   (or, with a separator, each `result.split(separator)` token) is compared by exact match against the
   target's keyword list; a hit raises `InvalidIdentifierException` (code 161).

`specOf` lists the properties of the tree under test (after the `fix:` commits recorded in
`findings/C01.json`); `nameOutcome` is what evaluating one of them gives.  The translator
(`harness/kwtables.py`) reads the live `type.py` files and keyword tables on every run and checks them against
this file (`rowModelled`, `siteOk`, reference ⊆ live); the correspondence run evaluates the real properties
against `nameOutcome` (driver op `c01.kwname`).

The reference tables at the end are the *specification*: words that cannot be an identifier in any context of
C++20, Java 17, Objective-C (C99 + the `_`-keywords the live table lists) and C++/CLI.  Context-sensitive
words (`final`, `override`, `var`, `record`, `property`, `value`, `id`, `self`, …) are left out on purpose.
-/
namespace Pydjinni.Gen.Keywords
open Pydjinni.Gen

/-! ## `validate` -/

inductive Lang | cxx | java | objc | cli | swift
deriving DecidableEq, Repr, Inhabited

def Lang.name : Lang → String
  | .cxx => "C++" | .java => "Java" | .objc => "Objective-C" | .cli => "C++/CLI" | .swift => "Swift"

def Lang.ofName? : String → Option Lang
  | "C++" => some .cxx | "Java" => some .java | "Objective-C" => some .objc | "C++/CLI" => some .cli
  | "Swift" => some .swift | _ => none

/-- the keyword lists of the implementation (`LanguageKeywords(...).keywords`), by language -/
structure Tables where
  cxx : List String
  java : List String
  objc : List String
  cli : List String
  swift : List String
deriving Repr, Inhabited

def Tables.get (T : Tables) : Lang → List String
  | .cxx => T.cxx | .java => T.java | .objc => T.objc | .cli => T.cli | .swift => T.swift

/-- `InvalidIdentifierException` (exit code 161): the offending token and the language of the table -/
inductive Diag | invalidIdentifier (lang : Lang) (token : String)
deriving DecidableEq, Repr

deriving instance DecidableEq for Except

/-- Python `s.split(sep)` for a non-empty `sep`, on character lists.  The counter is the number of characters of a
matched separator that are still to be dropped (structural recursion on the text, so the kernel can evaluate it). -/
def pushChar (c : Char) : List (List Char) → List (List Char)
  | t :: ts => (c :: t) :: ts
  | [] => [[c]]

def splitGo (sep : List Char) : Nat → List Char → List (List Char)
  | _, [] => [[]]
  | n + 1, _ :: cs => splitGo sep n cs
  | 0, c :: cs =>
    if sep.isPrefixOf (c :: cs) then [] :: splitGo sep (sep.length - 1) cs
    else pushChar c (splitGo sep 0 cs)

def splitOnL (sep s : List Char) : List (List Char) := splitGo sep 0 s

/-- `result.split(separator) if separator else [result]` (`None` and `""` are both falsy) -/
def tokens (sep : Option String) (s : String) : List String :=
  match sep with
  | none => [s]
  | some d => if d.toList.isEmpty then [s] else (splitOnL d.toList s.toList).map String.ofList

/-- the `wrapper` of `validate(language_keywords, separator)` applied to the decorated function's result -/
def validate (kw : List String) (lang : Lang) (sep : Option String) (s : String) : Except Diag String :=
  match (tokens sep s).find? (fun t => kw.contains t) with
  | some t => .error (.invalidIdentifier lang t)
  | none => .ok s

/-- stacked decorators `@validate(a) @validate(b) def f`: the check written *last* (innermost) runs first.
`checks` is given in application order (innermost first). -/
def runChecks (T : Tables) : List (Lang × Option String) → String → Except Diag String
  | [], s => .ok s
  | (l, sep) :: rest, s =>
    match validate (T.get l) l sep s with
    | .error d => .error d
    | .ok s' => runChecks T rest s'

/-! ## configuration and the IDL side -/

/-- the part of the generator configuration the name properties read -/
structure Cfg where
  /-- `config.<generator>.identifier.<key>` -/
  style : String → String → Style
  /-- `config.<generator>.namespace` / `config.java.package` (already split into components) -/
  base : String → List String
  /-- `config.objc.type_prefix` -/
  objcPrefix : String := ""

/-- what a name property reads from the declaration it belongs to -/
structure Decl where
  ns : List String := []
  name : String
  /-- the record is extended in this target (`record +cpp`): the generated class is `<name>_base` -/
  base : Bool := false
  /-- anonymous (inline) function type: Java and JNI use `name.title()` -/
  anon : Bool := false
deriving Repr, Inhabited

/-- how the property composes its result -/
inductive Shape
  /-- `lit ++ Identifier(pre ++ name ++ suf).convert(style)` -/
  | simple
  /-- `sep.join(config.base + [c.convert(style) for c in decl.namespace])` -/
  | nsPath (sep : String)
  /-- Objective-C: `Identifier('_'.join(decl.namespace)).convert(style)` -/
  | objcNs
  /-- Objective-C: `type_prefix ++ self.namespace ++ simple` (the validated `namespace` property is evaluated on the way) -/
  | objcType
  /-- `[sep] ++ self.<nsAttr> ++ sep ++ simple`: the validated namespace/package property is evaluated on the way -/
  | qualified (sep : String) (lead : Bool)
deriving Repr, DecidableEq

/-- a name-producing property of a marshalling class -/
structure Spec where
  /-- role name used in finding keys (`keyword:<generator>:<role>`) -/
  role : String
  shape : Shape := .simple
  /-- identifier style key of the generator's configuration … -/
  styleKey : String
  /-- … or a fixed case (Objective-C++ uses `IdentifierStyle.Case.pascal` / `.camel` directly) -/
  fixed : Option Case := none
  pre : String := ""
  suf : String := ""
  /-- the suffix is only added for an extended record (`_base`) -/
  sufOnlyBase : Bool := false
  lit : String := ""
  /-- anonymous function types are named `decl.name.title()` instead -/
  titleIfAnon : Bool := false
  /-- `@validate` decorators in application order (innermost first) -/
  checks : List (Lang × Option String) := []
deriving Repr

def Spec.styleOf (sp : Spec) (c : Cfg) (gen : String) : Style :=
  match sp.fixed with
  | some k => { case := k }
  | none => c.style gen sp.styleKey

/-- the converted simple name -/
def simpleName (sp : Spec) (c : Cfg) (gen : String) (d : Decl) : String :=
  if sp.titleIfAnon && d.anon then title d.name
  else sp.lit ++ convert (sp.styleOf c gen) (sp.pre ++ d.name ++ (if sp.sufOnlyBase && !d.base then "" else sp.suf))

def nsPathOf (sp : Spec) (c : Cfg) (gen : String) (sep : String) (d : Decl) : String :=
  joinS sep (c.base gen ++ d.ns.map (convert (sp.styleOf c gen)))

/-- the language whose table the generator's own type names are checked against -/
def langOfGen : String → Option Lang
  | "cpp" => some .cxx | "jni" => some .cxx | "java" => some .java | "objc" => some .objc
  | "cppcli" => some .cli | _ => none

/-! ## the properties of the tree under test -/

private def one (l : Lang) : List (Lang × Option String) := [(l, none)]

/-- the name-producing properties, class by class (`type.py` of each generator): (generator, class, attribute, spec) -/
def specTable : List (String × String × String × Spec) := [
  -- C++ (`generator/cpp/cpp/type.py`)
  ("cpp", "CppBaseType", "name", ({ role := "type", styleKey := "type", checks := one .cxx } : Spec)),
  ("cpp", "CppBaseType", "namespace", ({ role := "namespace", shape := .nsPath "::", styleKey := "namespace", checks := [(.cxx, some "::")] } : Spec)),
  ("cpp", "CppBaseField", "name", ({ role := "field", styleKey := "field", checks := one .cxx } : Spec)),
  ("cpp", "CppInterface.CppMethod", "name", ({ role := "method", styleKey := "method", checks := one .cxx } : Spec)),
  ("cpp", "CppSymbolicConstantType.CppSymbolicConstantField", "name", ({ role := "enum_item", styleKey := "enum", checks := one .cxx } : Spec)),
  ("cpp", "CppRecord", "derived_name", ({ role := "record_derived", styleKey := "type", checks := one .cxx } : Spec)),
  ("cpp", "CppRecord", "name", ({ role := "record", styleKey := "type", suf := "_base", sufOnlyBase := true, checks := one .cxx } : Spec)),
  -- Java (`generator/java/java/type.py`)
  ("java", "JavaBaseType", "name", ({ role := "type", styleKey := "type", checks := one .java } : Spec)),
  ("java", "JavaBaseType", "package", ({ role := "package", shape := .nsPath ".", styleKey := "package", checks := [(.java, some ".")] } : Spec)),
  ("java", "JavaBaseField", "name", ({ role := "field", styleKey := "field", checks := one .java } : Spec)),
  ("java", "JavaRecord", "name", ({ role := "record", styleKey := "type", suf := "_base", sufOnlyBase := true, checks := one .java } : Spec)),
  ("java", "JavaRecord", "typename", ({ role := "record_typename", shape := .qualified "." false, styleKey := "type", checks := [(.java, some ".")] } : Spec)),
  ("java", "JavaDataField", "getter", ({ role := "getter", styleKey := "method", pre := "get_" } : Spec)),
  ("java", "JavaFunction", "name", ({ role := "function", styleKey := "type", titleIfAnon := true, checks := one .java } : Spec)),
  ("java", "JavaSymbolicConstantField", "name", ({ role := "enum_item", styleKey := "enum", checks := one .java } : Spec)),
  ("java", "JavaInterface.JavaMethod", "name", ({ role := "method", styleKey := "method", checks := one .java } : Spec)),
  -- JNI glue, C++ (`generator/java/jni/type.py`): checked against the C++ table
  ("jni", "JniBaseType", "name", ({ role := "type", styleKey := "class_name", checks := one .cxx } : Spec)),
  ("jni", "JniBaseType", "namespace", ({ role := "namespace", shape := .nsPath "::", styleKey := "namespace", checks := [(.cxx, some "::")] } : Spec)),
  ("jni", "JniFunction", "name", ({ role := "function", styleKey := "class_name", titleIfAnon := true, checks := one .cxx } : Spec)),
  ("jni", "JniBaseField", "name", ({ role := "field", styleKey := "field" } : Spec)),
  ("jni", "JniSymbolicConstantField", "name", ({ role := "enum_item", styleKey := "enum" } : Spec)),
  ("jni", "JniInterface.JniMethod", "name", ({ role := "method", styleKey := "method" } : Spec)),
  ("jni", "JniParameter", "name", ({ role := "param", styleKey := "field", checks := one .cxx } : Spec)),
  -- Objective-C (`generator/objc/objc/type.py`)
  ("objc", "ObjcBaseType", "name", ({ role := "type", shape := .objcType, styleKey := "type", checks := one .objc } : Spec)),
  ("objc", "ObjcBaseType", "typename", ({ role := "typename", shape := .objcType, styleKey := "type", checks := one .objc } : Spec)),
  ("objc", "ObjcBaseType", "namespace", ({ role := "namespace", shape := .objcNs, styleKey := "type", checks := [(.swift, none), (.objc, none)] } : Spec)),
  ("objc", "ObjcBaseField", "name", ({ role := "field", styleKey := "field", checks := one .objc } : Spec)),
  ("objc", "ObjcRecord", "name", ({ role := "record", shape := .objcType, styleKey := "type", suf := "_base", sufOnlyBase := true, checks := one .objc } : Spec)),
  ("objc", "ObjcRecord", "derived_name", ({ role := "record_derived", shape := .objcType, styleKey := "type", checks := one .objc } : Spec)),
  ("objc", "ObjcSymbolicConstantField", "name", ({ role := "enum_item", styleKey := "enum", checks := one .objc } : Spec)),
  ("objc", "ObjcInterface.ObjcMethod", "name", ({ role := "method", styleKey := "method", checks := one .objc } : Spec)),
  ("objc", "ObjcErrorDomain.ObjcErrorCode", "name", ({ role := "error_code", styleKey := "type", checks := one .objc } : Spec)),
  -- C++/CLI (`generator/cppcli/cppcli/type.py`)
  ("cppcli", "CppCliBaseType", "name", ({ role := "type", styleKey := "type", checks := one .cli } : Spec)),
  ("cppcli", "CppCliBaseType", "namespace", ({ role := "namespace", shape := .nsPath "::", styleKey := "namespace", checks := [(.cli, some "::")] } : Spec)),
  ("cppcli", "CppCliBaseField", "name", ({ role := "local", styleKey := "local" } : Spec)),
  ("cppcli", "CppCliBaseField", "property", ({ role := "property", styleKey := "property", checks := one .cli } : Spec)),
  ("cppcli", "CppCliInterface.CppCliMethod", "name", ({ role := "method", styleKey := "method", checks := one .cli } : Spec)),
  ("cppcli", "CppCliInterface.CppCliMethod", "async_proxy_name", ({ role := "async_proxy", styleKey := "method", suf := "_proxy" } : Spec)),
  ("cppcli", "CppCliRecord", "name", ({ role := "record", styleKey := "type", suf := "_base", sufOnlyBase := true, checks := one .cli } : Spec)),
  ("cppcli", "CppCliRecord", "derived_name", ({ role := "record_derived", styleKey := "type", checks := one .cli } : Spec)),
  ("cppcli", "CppCliRecord", "typename", ({ role := "record_typename", shape := .qualified "::" true, styleKey := "type", checks := [(.cli, some "::")] } : Spec)),
  ("cppcli", "CppCliSymbolicConstant.Field", "name", ({ role := "enum_item", styleKey := "enum", checks := one .cli } : Spec)),
  ("cppcli", "CppCliFunction", "delegate_name", ({ role := "delegate", styleKey := "type", suf := "_delegate", lit := "_" } : Spec)),
  ("cppcli", "CppCliErrorDomain.CppCliErrorCode", "name", ({ role := "error_code", styleKey := "type", checks := one .cli } : Spec)),
  -- Objective-C++ glue (`generator/objc/objcpp/type.py`): fixed cases, nothing validated
  ("objcpp", "ObjcppBaseType", "name", ({ role := "type", styleKey := "", fixed := some .pascal } : Spec)),
  ("objcpp", "ObjcppBaseType", "namespace", ({ role := "namespace", shape := .nsPath "::", styleKey := "", fixed := some .pascal } : Spec)),
  ("objcpp", "ObjcppFunction", "name", ({ role := "function", styleKey := "", fixed := some .pascal, titleIfAnon := true } : Spec)),
  ("objcpp", "ObjcppBaseField", "name", ({ role := "field", styleKey := "", fixed := some .camel } : Spec)),
  ("objcpp", "ObjcppSymbolicConstantField", "name", ({ role := "enum_item", styleKey := "", fixed := some .pascal } : Spec))
]

/-- `specOf generator class attribute` -/
def specOf (gen cls attr : String) : Option Spec :=
  (specTable.find? (fun r => r.1 == gen && r.2.1 == cls && r.2.2.1 == attr)).map (fun r => r.2.2.2)

/-- the `namespace` / `package` property a composed property evaluates on the way (its own checks apply first) -/
def nsSpecOf (gen : String) : Option Spec :=
  match gen with
  | "java" => specOf "java" "JavaBaseType" "package"
  | "objc" => specOf "objc" "ObjcBaseType" "namespace"
  | "cppcli" => specOf "cppcli" "CppCliBaseType" "namespace"
  | "cpp" => specOf "cpp" "CppBaseType" "namespace"
  | "jni" => specOf "jni" "JniBaseType" "namespace"
  | _ => none

/-- the string an *unnested* shape composes -/
def flatCompose (sp : Spec) (c : Cfg) (gen : String) (d : Decl) : String :=
  match sp.shape with
  | .nsPath sep => nsPathOf sp c gen sep d
  | .objcNs => convert (sp.styleOf c gen) (joinS "_" d.ns)
  | _ => simpleName sp c gen d

/-- evaluate the namespace property the shape refers to (with its own validation) -/
def evalNs (T : Tables) (c : Cfg) (gen : String) (d : Decl) : Except Diag String :=
  match nsSpecOf gen with
  | some nsp => runChecks T nsp.checks (flatCompose nsp c gen d)
  | none => .ok ""

/-- the result of the decorated function (before the property's own `@validate`), or the diagnostic of a
validated property it evaluates on the way -/
def compose (T : Tables) (sp : Spec) (c : Cfg) (gen : String) (d : Decl) : Except Diag String :=
  match sp.shape with
  | .objcType =>
    match evalNs T c gen d with
    | .error e => .error e
    | .ok ns => .ok (c.objcPrefix ++ ns ++ simpleName sp c gen d)
  | .qualified sep lead =>
    match evalNs T c gen d with
    | .error e => .error e
    | .ok ns => .ok ((if lead then sep else "") ++ ns ++ sep ++ simpleName sp c gen d)
  | _ => .ok (flatCompose sp c gen d)

/-- **evaluating a name property**: compose, then the property's `@validate` checks on the composed result -/
def specOutcome (T : Tables) (c : Cfg) (gen : String) (sp : Spec) (d : Decl) : Except Diag String :=
  match compose T sp c gen d with
  | .error e => .error e
  | .ok s => runChecks T sp.checks s

/-- `nameOutcome tables cfg generator class attribute decl`; `none` = not a modelled property -/
def nameOutcome (T : Tables) (c : Cfg) (gen cls attr : String) (d : Decl) : Option (Except Diag String) :=
  (specOf gen cls attr).map (fun sp => specOutcome T c gen sp d)

/-- the role is validated against the generator's own language, whole string (no separator) -/
def Spec.validatedBy (sp : Spec) (l : Lang) : Bool := sp.checks.any (fun p => p.1 == l)

/-! ## what the translator's tables are checked against -/

/-- a name-producing property as found in a live `type.py` (by `ast`): class, attribute, the identifier style
keys it reads (`"=pascal"` for a fixed case), the `@validate` decorators in application order -/
structure PropRow where
  gen : String
  cls : String
  attr : String
  styles : List String
  checks : List (String × Option String)
deriving Repr, DecidableEq

/-- name-producing properties that are deliberately not modelled (the correspondence run skips them) -/
def notModelled : List (String × String × String) := [
  -- Swift names inside `NS_SWIFT_NAME(…)`: validated against the Swift table by the implementation; Swift is not generated
  ("objc", "ObjcBaseType", "swift_typename"), ("objc", "ObjcRecord", "swift_typename"),
  ("objc", "ObjcInterface.ObjcMethod", "_swift_name"),
  -- selectors built from the first field's name (`initWithX:`), user-info key constants (typename ++ code ++ parameter)
  ("objc", "ObjcRecord", "init"), ("objc", "ObjcRecord", "convenience_init"), ("objc", "ObjcErrorDomain", "user_info_keys"),
  -- the C# spelling used inside the `ToString()` text
  ("cppcli", "CppCliBaseType", "cs_typename")]

def styleTag (sp : Spec) : String :=
  match sp.fixed with
  | some .pascal => "=pascal" | some .camel => "=camel" | some .snake => "=snake" | some .kebab => "=kebab"
  | some .train => "=train" | some .none => "=none"
  | none => sp.styleKey

/-- a live row agrees with the model: same style key, same decorators (language and separator, in order) -/
def rowModelled (r : PropRow) : Bool :=
  match specOf r.gen r.cls r.attr with
  | some sp => r.styles == [styleTag sp] && r.checks == sp.checks.map (fun p => (p.1.name, p.2))
  | none => notModelled.contains (r.gen, r.cls, r.attr)

/-- a place where a template prints a name-producing attribute of `<decl>.<gen>`: how often bare, and the literal
identifier characters it is glued to otherwise (`field_{{ x.jni.name }}` ↦ `("field_", "")`) -/
structure Site where
  tmplGen : String
  gen : String
  cls : String
  attr : String
  bare : Nat
  glued : List (String × String)
deriving Repr, DecidableEq

def startsWithL (w p : String) : Bool := p.toList.isPrefixOf w.toList
def endsWithL (w s : String) : Bool := s.toList.reverse.isPrefixOf w.toList.reverse

/-- printed only as part of a longer identifier that no reserved word of the table can be -/
def gluedSafe (tbl : List String) (g : String × String) : Bool :=
  (!g.1.toList.isEmpty && tbl.all (fun w => !startsWithL w g.1)) || (!g.2.toList.isEmpty && tbl.all (fun w => !endsWithL w g.2))

/-- **harmless by construction** — printed, unvalidated, and still never a reserved word of the reference tables:
* `getter`, `async_proxy_name`, `delegate_name`: glued to `get_` / `_proxy` / `_` … `_delegate` before conversion; no reserved
  word begins with `get`, ends in `proxy`, or begins with `_` and ends in `delegate` (in any case spelling);
* `init`, `convenience_init`: Objective-C selector position, where keywords are legal (`- (Class)class`, `+ new`);
* `cs_typename`: printed inside a string literal;
* Objective-C++ class / namespace names: fixed `PascalCase`, and no reserved word starts with an upper-case letter
  (`pascal_not_reserved` in Props/C01Keywords.lean). -/
def allowed : List (String × String × String) := [
  ("java", "JavaDataField", "getter"),
  ("cppcli", "CppCliInterface.CppCliMethod", "async_proxy_name"),
  ("cppcli", "CppCliFunction", "delegate_name"),
  ("objc", "ObjcRecord", "init"), ("objc", "ObjcRecord", "convenience_init"),
  ("cppcli", "CppCliBaseType", "cs_typename"),
  ("objcpp", "ObjcppBaseType", "name"), ("objcpp", "ObjcppBaseType", "namespace"), ("objcpp", "ObjcppFunction", "name"),
  ("objcpp", "ObjcppSymbolicConstantField", "name")]

/-- **domain clause** (`findings/C01.json`, key `keyword:<generator>:<role>`): printed bare, not validated, reproduced
by the check on every run.
* `keyword:cppcli:local` — C++/CLI local and parameter names (`identifier.local`, camelCase by default) are not checked:
  `m(gcnew: i32)` writes `void M(int gcnew)`.  Not repaired: the C++/CLI table also lists context-sensitive words
  (`value`, `event`, `property`, `array`, …) that are legal parameter names, so checking locals against it would
  refuse `value: i32`.
* `keyword:objc:user_info_key` — the user-info key constant of an error-code parameter is the concatenation
  `typename ++ code ++ parameter`; each part is checked (or not), the concatenation is not: without type prefix and
  with unconverted type style `i = error { n(t: i32); }` declares `NSErrorUserInfoKey const int`. -/
def knownUnvalidated : List (String × String × String) := [
  ("cppcli", "CppCliBaseField", "name"),
  ("objc", "ObjcErrorDomain", "user_info_keys")]

/-- the print site is covered: the property is validated against its generator's language, or harmless by
construction, or a listed finding, or only ever printed inside a longer identifier -/
def siteOk (T : Tables) (rows : List PropRow) (s : Site) : Bool :=
  match rows.find? (fun r => r.gen == s.gen && r.cls == s.cls && r.attr == s.attr), langOfGen s.gen with
  | some r, some l =>
    r.checks.any (fun p => p.1 == l.name)
      || allowed.contains (s.gen, s.cls, s.attr) || knownUnvalidated.contains (s.gen, s.cls, s.attr)
      || (s.bare == 0 && s.glued.all (gluedSafe (T.get l)))
  | some _, none => allowed.contains (s.gen, s.cls, s.attr)      -- Objective-C++ glue: no table of its own
  | none, _ => false

/-! ## reference tables (specification) -/

/-- C++20 keywords and alternative tokens ([lex.key]); identifiers with special meaning (`final`, `override`,
`import`, `module`) are not reserved -/
def cxxReserved : List String := [
  "alignas", "alignof", "and", "and_eq", "asm", "auto", "bitand", "bitor", "bool", "break", "case", "catch", "char",
  "char8_t", "char16_t", "char32_t", "class", "compl", "concept", "const", "consteval", "constexpr", "constinit",
  "const_cast", "continue", "co_await", "co_return", "co_yield", "decltype", "default", "delete", "do", "double",
  "dynamic_cast", "else", "enum", "explicit", "export", "extern", "false", "float", "for", "friend", "goto", "if",
  "inline", "int", "long", "mutable", "namespace", "new", "noexcept", "not", "not_eq", "nullptr", "operator", "or",
  "or_eq", "private", "protected", "public", "register", "reinterpret_cast", "requires", "return", "short", "signed",
  "sizeof", "static", "static_assert", "static_cast", "struct", "switch", "template", "this", "thread_local", "throw",
  "true", "try", "typedef", "typeid", "typename", "union", "unsigned", "using", "virtual", "void", "volatile",
  "wchar_t", "while", "xor", "xor_eq"]

/-- Java 17 reserved keywords (JLS §3.9, without `_`, which no IDL name converts to) and the literals
`true`, `false`, `null`; contextual keywords (`var`, `record`, `yield`, `sealed`, `permits`, module words) are not reserved -/
def javaReserved : List String := [
  "abstract", "assert", "boolean", "break", "byte", "case", "catch", "char", "class", "const", "continue", "default",
  "do", "double", "else", "enum", "extends", "final", "finally", "float", "for", "goto", "if", "implements", "import",
  "instanceof", "int", "interface", "long", "native", "new", "package", "private", "protected", "public", "return",
  "short", "static", "strictfp", "super", "switch", "synchronized", "this", "throw", "throws", "transient", "try",
  "void", "volatile", "while", "true", "false", "null"]

/-- Objective-C = C99 keywords (ISO C §6.4.1); `id`, `self`, `super`, `nil`, `BOOL`, … are typedefs, macros or
context-sensitive and are not reserved -/
def objcReserved : List String := [
  "auto", "break", "case", "char", "const", "continue", "default", "do", "double", "else", "enum", "extern", "float",
  "for", "goto", "if", "inline", "int", "long", "register", "restrict", "return", "short", "signed", "sizeof", "static",
  "struct", "switch", "typedef", "union", "unsigned", "void", "volatile", "while", "_Bool", "_Complex", "_Imaginary"]

/-- C++/CLI: the C++17 keywords plus the three new true keywords `gcnew`, `generic`, `nullptr` (ECMA-372 §9.1.1);
the context-sensitive ones (`property`, `event`, `value`, `ref`, `sealed`, `abstract`, `array`, …) are not reserved -/
def cliReserved : List String := [
  "alignas", "alignof", "and", "and_eq", "asm", "auto", "bitand", "bitor", "bool", "break", "case", "catch", "char",
  "char16_t", "char32_t", "class", "compl", "const", "constexpr", "const_cast", "continue", "decltype", "default",
  "delete", "do", "double", "dynamic_cast", "else", "enum", "explicit", "export", "extern", "false", "float", "for",
  "friend", "goto", "if", "inline", "int", "long", "mutable", "namespace", "new", "noexcept", "not", "not_eq",
  "nullptr", "operator", "or", "or_eq", "private", "protected", "public", "register", "reinterpret_cast", "return",
  "short", "signed", "sizeof", "static", "static_assert", "static_cast", "struct", "switch", "template", "this",
  "thread_local", "throw", "true", "try", "typedef", "typeid", "typename", "union", "unsigned", "using", "virtual",
  "void", "volatile", "wchar_t", "while", "xor", "xor_eq", "gcnew", "generic"]

/-- the reserved words of a generated language; Swift is not generated (the Swift table only guards `NS_SWIFT_NAME`) -/
def reference : Lang → List String
  | .cxx => cxxReserved | .java => javaReserved | .objc => objcReserved | .cli => cliReserved | .swift => []

/-- reference ⊆ implementation table, for one language -/
def refCovered (T : Tables) (l : Lang) : Bool := (reference l).all (fun w => (T.get l).contains w)

end Pydjinni.Gen.Keywords
