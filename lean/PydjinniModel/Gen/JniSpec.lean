import PydjinniModel.Gen.Jni
/-!
# C07 specification on observations

What the JVM would do with the generated pair (Java classes, JNI glue), on plain observations:
* `Obs.classes` — every class of the generated Java (as `javap -s -p` prints them, or from the sources with
  descriptors computed by `Lang/JavaDesc`), plus the JDK classes they extend;
* `Obs.lookups` — every class / member the glue looks up by name and descriptor;
* `Obs.exports` — every `JNIEXPORT` function with its C signature.

`specFailures` lists the violated clauses:
* `class-not-found`, `member-not-found` — a lookup that `FindClass` / `GetMethodID` / `GetStaticMethodID` /
  `GetFieldID` would fail (members are searched in the class and its superclasses; static-ness must match);
* `native-without-export`, `native-exported-twice` — `RegisterNatives`-free linking needs exactly one
  `Java_<mangled class>_<mangled method>`;
* `native-c-types` — the export's C parameter / result types are not the JNI types of the Java signature;
* `export-without-native` — an exported `Java_…` symbol that no native method resolves to.
-/
namespace Pydjinni.Gen

structure MemberObs where
  kind : String      -- field | method | ctor
  name : String
  desc : String
  isStatic : Bool
  isNative : Bool
deriving Repr, Inhabited

structure ClassObs where
  name : String                 -- binary name a/b/C$D
  super : Option String
  members : List MemberObs
deriving Repr, Inhabited

structure ExportObs where
  symbol : String
  ret : String
  params : List String          -- all C parameter types, including `JNIEnv *` and the receiver
deriving Repr, Inhabited

structure Obs where
  classes : List ClassObs
  lookups : List Lookup
  exports : List ExportObs

def findClass (cs : List ClassObs) (n : String) : Option ClassObs := cs.find? (·.name == n)

/-- the class and its superclasses, nearest first (fuel = number of classes: the hierarchy is acyclic) -/
def superChain (cs : List ClassObs) : Nat → String → List ClassObs
  | 0, _ => []
  | fuel + 1, n =>
    match findClass cs n with
    | none => []
    | some c => c :: (match c.super with | some s => superChain cs fuel s | none => [])

def lookupKindOk (l : Lookup) (m : MemberObs) : Bool :=
  match l.kind with
  | "field" => m.kind == "field" && !m.isStatic
  | "method" => (m.kind == "method" || m.kind == "ctor") && !m.isStatic
  | "static" => m.kind == "method" && m.isStatic
  | _ => false

def lookupResolves (cs : List ClassObs) (l : Lookup) : Bool :=
  if l.kind == "class" then (findClass cs l.cls).isSome
  else (superChain cs (cs.length + 1) l.cls).any (fun c =>
    c.members.any (fun m => m.name == l.name && m.desc == l.sig && lookupKindOk l m &&
      -- constructors are not inherited
      (m.kind != "ctor" || c.name == l.cls)))

/-! descriptors → C types -/

/-- one field descriptor off the front of a descriptor string -/
def takeDesc : Nat → List Char → Option (List Char × List Char)
  | 0, _ => none
  | _ + 1, [] => none
  | fuel + 1, c :: cs =>
    if c == '[' then
      match takeDesc fuel cs with
      | some (d, rest) => some (c :: d, rest)
      | none => none
    else if c == 'L' then
      let body := cs.takeWhile (· != ';')
      if body.length == cs.length then none else some (c :: body ++ [';'], cs.drop (body.length + 1))
    else some ([c], cs)

def splitDescs : Nat → List Char → Option (List String)
  | 0, _ => none
  | _ + 1, [] => some []
  | fuel + 1, cs =>
    match takeDesc (cs.length + 1) cs with
    | some (d, rest) =>
      match splitDescs fuel rest with
      | some l => some (String.ofList d :: l)
      | none => none
    | none => none

/-- `(params)ret` → (parameter descriptors, result descriptor) -/
def splitMethodDesc (d : String) : Option (List String × String) :=
  match d.toList with
  | '(' :: cs =>
    let ps := cs.takeWhile (· != ')')
    if ps.length == cs.length then none else
    match splitDescs (ps.length + 1) ps with
    | some l => some (l, String.ofList (cs.drop (ps.length + 1)))
    | none => none
  | _ => none

/-- JNI C type of a descriptor -/
def cTypeOfDesc : String → String
  | "Z" => "jboolean" | "B" => "jbyte" | "C" => "jchar" | "S" => "jshort" | "I" => "jint"
  | "J" => "jlong" | "F" => "jfloat" | "D" => "jdouble" | "V" => "void"
  | "Ljava/lang/String;" => "jstring" | "Ljava/lang/Throwable;" => "jthrowable" | "Ljava/lang/Class;" => "jclass"
  | "[Z" => "jbooleanArray" | "[B" => "jbyteArray" | "[C" => "jcharArray" | "[S" => "jshortArray" | "[I" => "jintArray"
  | "[J" => "jlongArray" | "[F" => "jfloatArray" | "[D" => "jdoubleArray"
  | d => if d.startsWith "[" then "jobjectArray" else "jobject"

/-- white-space-insensitive C type comparison (`JNIEnv *` vs `JNIEnv*`) -/
def normC (s : String) : String := String.ofList (s.toList.filter (fun c => c != ' '))

def nativeFailures (exports : List ExportObs) (c : ClassObs) (m : MemberObs) : List String :=
  let sym := nativeSymbol c.name m.name
  let es := exports.filter (·.symbol == sym)
  match es with
  | [] => ["native-without-export"]
  | [e] =>
    match splitMethodDesc m.desc with
    | none => ["native-c-types"]
    | some (ps, r) =>
      let want := ["JNIEnv*", if m.isStatic then "jclass" else "jobject"] ++ ps.map cTypeOfDesc
      if e.params.map normC == want && normC e.ret == cTypeOfDesc r then [] else ["native-c-types"]
  | _ => ["native-exported-twice"]

def allNatives (cs : List ClassObs) : List (ClassObs × MemberObs) :=
  cs.flatMap (fun c => (c.members.filter (·.isNative)).map (fun m => (c, m)))

/-- failing clauses with the offending lookup / native / export -/
def specFailures (o : Obs) : List (String × String) :=
  (o.lookups.filterMap (fun l =>
    if lookupResolves o.classes l then none
    else some (if l.kind == "class" then "class-not-found" else "member-not-found", l.cls ++ " " ++ l.kind ++ " " ++ l.name ++ " " ++ l.sig))) ++
  ((allNatives o.classes).flatMap (fun (c, m) => (nativeFailures o.exports c m).map (fun f => (f, c.name ++ "." ++ m.name ++ " " ++ m.desc)))) ++
  (o.exports.filterMap (fun e =>
    if e.symbol.startsWith "Java_" && !(allNatives o.classes).any (fun (c, m) => nativeSymbol c.name m.name == e.symbol)
    then some ("export-without-native", e.symbol) else none))

end Pydjinni.Gen
