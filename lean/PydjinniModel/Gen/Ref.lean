import PydjinniModel.Gen.Cpp
import PydjinniModel.Gen.Java
import PydjinniModel.Gen.Objc
import PydjinniModel.Gen.CppCli
import PydjinniModel.Gen.Tables
/-!
# Reference type mapping (the specification side of C02)

Written independently of the string-accumulating marshalling code: every target maps a resolved type
reference to a small type-expression tree `TExp` by a rules table (head of the type, how optional /
interface / function / parameter position wrap it), compositionally over generic arguments and function
signatures; one printer `printT` renders a tree in the concrete syntax the four targets share.
`Props/C02.lean` proves that the marshalling models print exactly these trees at every nesting depth.
-/
namespace Pydjinni.Gen

inductive TExp
  /-- a type name, verbatim -/
  | atom (s : String)
  /-- Java: package-qualified simple name with an optional type annotation in front of the simple name;
      `java.lang` is implicit -/
  | qname (pkg : List String) (ann : Option String) (simple : String)
  /-- `head<a₁, …, aₙ>` (all targets) -/
  | app (head : TExp) (args : List TExp)
  /-- C++: `std::function<ret(p₁,…,pₙ)>` -/
  | fn (ret : TExp) (params : List TExp)
  /-- C++: `const e &` -/
  | constRef (e : TExp)
  /-- Java: `e[]` -/
  | arr (e : TExp)
  /-- Objective-C: `e *` -/
  | ptr (e : TExp)
  /-- Objective-C: `id<e>` -/
  | idOf (e : TExp)
  /-- Objective-C: `e s` (a type followed by a nullability macro; `s` may be empty) -/
  | suffix (e : TExp) (s : String)
  /-- Objective-C block: `ret (^ _Nonnull)(p₁, …)` / `(^ _Nullable)`; `throws` appends the `NSError**` slot -/
  | block (ret : TExp) (nullable : Bool) (params : List TExp) (throws : Bool)
  /-- C++/CLI: `e^` -/
  | handle (e : TExp)
deriving Repr, Inhabited

mutual
def printT : TExp → String
  | .atom s => s
  | .qname pkg ann simple =>
    let p := if pkg == ["java", "lang"] || pkg.isEmpty then "" else joinS "." pkg ++ "."
    match ann with
    | some a => p ++ a ++ " " ++ simple
    | none => p ++ simple
  | .app h args => if args.isEmpty then printT h else printT h ++ "<" ++ joinS ", " (printTs args) ++ ">"
  | .fn r ps => "std::function<" ++ printT r ++ "(" ++ joinS "," (printTs ps) ++ ")>"
  | .constRef e => "const " ++ printT e ++ " &"
  | .arr e => printT e ++ "[]"
  | .ptr e => printT e ++ " *"
  | .idOf e => "id<" ++ printT e ++ ">"
  | .suffix e s => printT e ++ " " ++ s
  | .block r nullable ps throws =>
    printT r ++ " " ++ (if nullable then "(^ _Nullable)" else "(^ _Nonnull)") ++ "(" ++
      joinS ", " (printTs ps ++ (if throws then ["NSError* _Nullable * _Nonnull"] else [])) ++ ")"
  | .handle e => printT e ++ "^"
def printTs : List TExp → List String
  | [] => []
  | e :: es => printT e :: printTs es
end

/-- where a type is written: as a field / plain value, as a parameter, as a method result -/
inductive Pos | field | param | result
deriving DecidableEq, Repr

/-! ## C++ -/

def wrap1 (w : String) (e : TExp) : TExp := .app (.atom w) [e]

/-- how optional-ness and the kind of the type wrap its expression -/
def refCppWrap (prim : Prim) (optional : Bool) (e : TExp) : TExp :=
  match prim with
  | .interface => wrap1 "std::shared_ptr" e           -- optional or not: a (nullable) shared pointer
  | .function => e                                      -- `std::function` is already nullable
  | _ => if optional then wrap1 "std::optional" e else e

mutual
/-- the type itself, without position wrappers -/
def refCppCore (c : CppCfg) : RType → TExp
  | .mk d args optional => refCppWrap d.prim optional (.app (refCppHead c d) (refCppCores c args))
/-- the head of a type: the reference name of a built-in, the qualified name of a declaration, `std::function<R(P…)>` -/
def refCppHead (c : CppCfg) : TDef → TExp
  | .builtin b => .atom (refRow b).cpp
  | .user u => .atom (cppUserTypename c u)
  | .func _ _ _ params ret => .fn (refCppCoreO c ret) (refCppCores c params)
def refCppCores (c : CppCfg) : List RType → List TExp
  | [] => []
  | t :: ts => refCppCore c t :: refCppCores c ts
def refCppCoreO (c : CppCfg) : Option RType → TExp
  | none => .atom "void"
  | some t => refCppCore c t
end

/-- non-optional interface pointers are wrapped in the configured `not_null` type where the API promises
    non-null (parameters and results, not record fields) -/
def refCppNotNull (c : CppCfg) (prim : Prim) (optional : Bool) (p : Pos) (e : TExp) : TExp :=
  match c.notNull with
  | some nn => if p != .field && !nn.isEmpty && prim == .interface && !optional then wrap1 nn e else e
  | none => e

/-- arithmetic built-ins, enums and flags are value types -/
def refByValue : TDef → Bool
  | .builtin b => cppArithmetic.contains (refRow b).cpp
  | .user u => u.prim == .enum || u.prim == .flags
  | .func _ _ _ _ _ => false

/-- parameters of non-value types are taken by `const &` -/
def refCpp (c : CppCfg) (t : RType) (p : Pos) : TExp :=
  let e := refCppNotNull c t.def'.prim t.optional p (refCppCore c t)
  if p == .param && !refByValue t.def' then .constRef e else e

/-! ## Java -/

def annOf (a : Option String) : Option String :=
  match a with
  | some s => if s.isEmpty then none else some s
  | none => none

mutual
/-- a structured Java type without annotations -/
def plainJ : JType → TExp
  | .prim p => .qname [] none p
  | .cls pkg name args => .app (.qname pkg none name) (plainJs args)
  | .arr e => .arr (plainJ e)
def plainJs : List JType → List TExp
  | [] => []
  | t :: ts => plainJ t :: plainJs ts
end

/-- the annotation goes in front of the simple name of the (outermost) head type; `args` replace the head's own
    type arguments when the reference has generic arguments -/
def annotHead (ann : Option String) (args : Option (List TExp)) : JType → TExp
  | .prim p => .app (.qname [] ann p) (args.getD [])
  | .cls pkg name hargs => .app (.qname pkg ann name) (match args with | some a => a | none => plainJs hargs)
  | .arr (.prim p) => .app (.arr (.qname [] ann p)) (args.getD [])
  | .arr e => .app (.arr (plainJ e)) (args.getD [])

/-- head type: built-ins from the reference table (boxed = the wrapper class), flags as `EnumSet<F>`, everything
    else as its own class -/
def refJavaHead (c : JavaCfg) (d : TDef) (boxed : Bool) : JType :=
  match d with
  | .builtin b => if boxed then boxOf (refRow b).java else (refRow b).java
  | d => javaHeadJ c d boxed

mutual
/-- primitives are boxed exactly under generics, optional and async -/
def refJava (c : JavaCfg) : RType → Bool → TExp
  | .mk d args optional, boxed =>
    let ann := annOf (if optional then c.nullable else c.nonnull)
    annotHead ann (if args.isEmpty then none else some (refJavas c args)) (refJavaHead c d (boxed || optional))
def refJavas (c : JavaCfg) : List RType → List TExp
  | [] => []
  | t :: ts => refJava c t true :: refJavas c ts
end

def refJavaRet (c : JavaCfg) (t : Option RType) (async : Bool) : TExp :=
  let inner : TExp := match t with
    | some t => refJava c t async
    | none => if async then .qname ["java", "lang"] none "Void" else .atom "void"
  if async then .app (.qname ["java", "util", "concurrent"] (annOf c.nonnull) "CompletableFuture") [inner] else inner

/-! ## Objective-C -/

/-- class types are pointers -/
def refObjcPointer : TDef → Bool
  | .builtin b => objcClassType (refRow b).objc
  | d => objcPointer d

/-- nullability annotation of a reference: optional (non-block) types are nullable, class types non-null -/
def refObjcAnnotation (t : Option RType) (macroStyle : Bool) : String :=
  match t with
  | some (.mk d _ o) =>
    if o && d.prim != .function then (if macroStyle then "_Nullable" else "nullable")
    else if refObjcPointer d then (if macroStyle then "_Nonnull" else "nonnull") else ""
  | none => ""

mutual
def refObjc (c : ObjcCfg) : RType → (parameter boxed : Bool) → TExp
  | .mk d args optional, parameter, boxed =>
    -- an interface-typed parameter is a protocol-qualified `id`, everything else of class type is a pointer
    let isIfaceParam := d.prim == .interface && parameter
    let base := refObjcBase c d (boxed || optional) optional
    let e := TExp.app (if isIfaceParam then .idOf base else base) (refObjcBoxeds c args)
    if (!isIfaceParam && refObjcPointer d) || boxed || (optional && d.prim != .function) then .ptr e else e
/-- the base name: scalars are boxed (`NSNumber`) in collections and when optional; a function type is a block -/
def refObjcBase (c : ObjcCfg) : TDef → (boxedOrOptional optional : Bool) → TExp
  | .builtin b, boxedOrOptional, _ => .atom (if boxedOrOptional then objcBoxOf (refRow b).objc else (refRow b).objc)
  | .user u, _, _ => .atom (objcUserTypename c u)
  | .func _ _ noexcept params ret, _, optional => .block (refObjcO c ret) optional (refObjcParams c params) (!noexcept)
/-- block parameters: parameter position, followed by the nullability macro -/
def refObjcParams (c : ObjcCfg) : List RType → List TExp
  | [] => []
  | p :: ps => .suffix (refObjc c p true false) (refObjcAnnotation (some p) true) :: refObjcParams c ps
/-- collection elements are boxed -/
def refObjcBoxeds (c : ObjcCfg) : List RType → List TExp
  | [] => []
  | t :: ts => refObjc c t false true :: refObjcBoxeds c ts
def refObjcO (c : ObjcCfg) : Option RType → TExp
  | none => .atom "void"
  | some t => refObjc c t false false
end

/-! ## C++/CLI -/

/-- handles for everything but value types -/
def refCliReference : TDef → Bool
  | .builtin b => !cliValueTypes.contains (refRow b).cli
  | d => cliReference d

mutual
def refCli (c : CliCfg) : RType → TExp
  | .mk d args optional =>
    -- value types become `Nullable<T>` when optional; reference types are handles (nullable anyway)
    let head := refCliHead c d
    let h := if optional && !refCliReference d then wrap1 "System::Nullable" head else head
    let e := TExp.app h (refClis c args)
    if refCliReference d then .handle e else e
/-- anonymous function types are the generic delegates `System::Func<P…, R>` / `System::Action<P…>` -/
def refCliHead (c : CliCfg) : TDef → TExp
  | .builtin b => .atom (refRow b).cli
  | .user u => .atom (cliUserTypename c u)
  | .func u anonymous _ params ret =>
    if anonymous then
      match ret with
      | some r => .app (.atom "System::Func") (refClis c params ++ [refCli c r])
      | none => .app (.atom "System::Action") (refClis c params)
    else .atom (cliUserTypename c u)
def refClis (c : CliCfg) : List RType → List TExp
  | [] => []
  | t :: ts => refCli c t :: refClis c ts
end

def refCliRet (c : CliCfg) (t : Option RType) (async : Bool) : TExp :=
  match t with
  | some t => if async then .handle (wrap1 "System::Threading::Tasks::Task" (refCli c t)) else refCli c t
  | none => if async then .handle (.atom "System::Threading::Tasks::Task") else .atom "void"

end Pydjinni.Gen
