import PydjinniModel.Front.Spec
import PydjinniModel.Front.Names
/-!
Dependencies and C++ header includes of a declaration (C01).

Two sites of the implementation have to agree for a generated header to compile on its own:

* the *type specifier* path (`cpp/type.py: _type_specifier`, `CppFunction.typename`) decides which type
  names are written into the header — for an inline function type the whole signature is written
  (`std::function<ret(params)>`), at any nesting depth;
* the *dependency* path (`parser.py: _dependencies`, `filters.headers`, `header_includes`) decides which
  headers are included — generic arguments are flattened, an inline function type contributes the header of
  its own (anonymous) declaration, which in turn includes what its signature needs.

`mentionsT` models the first, `depsT`/`providedT` the second. Import-free.
-/
namespace Pydjinni.Gen
open Pydjinni.Front

/-- identity of the definition a type reference denotes, as far as headers are concerned -/
inductive DepKey
  | named (ns : List String) (name : String)    -- a `dataType`: resolved later through lexical lookup
  | anon (sig : FnSig)                           -- an inline function type: its own anonymous declaration
deriving Inhabited

structure DepRef where
  key : DepKey
  optional : Bool
deriving Inhabited

mutual
/-- `Parser._dependencies([t])`: the reference followed by the flattened generic arguments; an inline
    function type is one dependency (its parameters are dependencies of the anonymous declaration) -/
def depsT (ns : List String) : TypeRef → List DepRef
  | .data name args opt _ => { key := .named ns name, optional := opt } :: depsTs ns args
  | .fn sig _ => [{ key := .anon sig, optional := false }]
def depsTs (ns : List String) : List TypeRef → List DepRef
  | [] => []
  | t :: ts => depsT ns t ++ depsTs ns ts
end

def depsOT (ns : List String) : Option TypeRef → List DepRef
  | none => []
  | some t => depsT ns t

def depsParams (ns : List String) : List Param → List DepRef
  | [] => []
  | .mk _ t _ :: ps => depsT ns t ++ depsParams ns ps

/-- `visitFunction`: parameters, throwing, return type (flattened — after the `fix:` commit) -/
def depsOfSig (ns : List String) : FnSig → List DepRef
  | .mk _ _ params thr ret => depsParams ns params ++ depsTs ns (thr.getD []) ++ depsOT ns ret

def depsOfMethod (ns : List String) (m : Method) : List DepRef :=
  depsParams ns m.params ++ depsTs ns (m.throwing.getD []) ++ depsOT ns m.ret

def depsOfMethods (ns : List String) : List Method → List DepRef
  | [] => []
  | m :: ms => depsOfMethod ns m ++ depsOfMethods ns ms

def depsOfCodes (ns : List String) : List ErrCode → List DepRef
  | [] => []
  | c :: cs => depsParams ns c.params ++ depsOfCodes ns cs

/-- `decl.dependencies` as the visitor computes it -/
def depsOfDecl (ns : List String) : Decl → List DepRef
  | .enum .. => []
  | .flags .. => []
  | .record _ _ _ _ fields _ _ => depsTs ns (fields.map (·.ty))
  | .interface _ _ _ _ _ methods props _ => depsOfMethods ns methods ++ depsTs ns (props.map (·.ty))
  | .function _ _ sig _ => depsOfSig ns sig
  | .error _ _ codes _ => depsOfCodes ns codes

/-! ### what the emitted type specifiers mention -/

mutual
/-- the named types written by `_type_specifier(t)`: the type itself, its generic arguments, and — for an
    inline function type — everything `CppFunction.typename` writes for the signature (return type and
    parameters; `throws` is not part of `std::function<…>`) -/
def mentionsT (ns : List String) : TypeRef → List (List String × String)
  | .data name args _ _ => (ns, name) :: mentionsTs ns args
  | .fn sig _ => mentionsF ns sig
def mentionsTs (ns : List String) : List TypeRef → List (List String × String)
  | [] => []
  | t :: ts => mentionsT ns t ++ mentionsTs ns ts
def mentionsF (ns : List String) : FnSig → List (List String × String)
  | .mk _ _ params _ ret => mentionsOT ns ret ++ mentionsPs ns params
def mentionsPs (ns : List String) : List Param → List (List String × String)
  | [] => []
  | .mk _ t _ :: ps => mentionsT ns t ++ mentionsPs ns ps
def mentionsOT (ns : List String) : Option TypeRef → List (List String × String)
  | none => []
  | some t => mentionsT ns t
end

/-! ### what including a dependency's header provides (transitively through inline function headers) -/

mutual
/-- named types whose definition becomes visible by including the header(s) of dependency `t`: the named
    type itself and its flattened arguments; for an inline function type its anonymous header, which
    includes the headers of *its* dependencies (parameters, throwing, return), recursively -/
def providedT (ns : List String) : TypeRef → List (List String × String)
  | .data name args _ _ => (ns, name) :: providedTs ns args
  | .fn sig _ => providedF ns sig
def providedTs (ns : List String) : List TypeRef → List (List String × String)
  | [] => []
  | t :: ts => providedT ns t ++ providedTs ns ts
def providedF (ns : List String) : FnSig → List (List String × String)
  | .mk _ _ params thr ret => providedPs ns params ++ providedOTs ns thr ++ providedOT ns ret
def providedPs (ns : List String) : List Param → List (List String × String)
  | [] => []
  | .mk _ t _ :: ps => providedT ns t ++ providedPs ns ps
def providedOT (ns : List String) : Option TypeRef → List (List String × String)
  | none => []
  | some t => providedT ns t
def providedOTs (ns : List String) : Option (List TypeRef) → List (List String × String)
  | none => []
  | some ts => providedTs ns ts
end

/-- the type references whose specifier is written into a declaration's own header -/
def writtenTypes : Decl → List TypeRef
  | .enum .. => []
  | .flags .. => []
  | .record _ _ _ _ fields _ _ => fields.map (·.ty)
  | .interface _ _ _ _ _ methods _ _ => methods.flatMap (fun m => m.params.map paramType ++ m.ret.toList)
  | .function _ _ (.mk _ _ params _ ret) _ => params.map paramType ++ ret.toList
  | .error _ _ codes _ => codes.flatMap (fun c => c.params.map paramType)

/-- the type references the declaration's dependency list is computed from -/
def dependencyTypes : Decl → List TypeRef
  | .enum .. => []
  | .flags .. => []
  | .record _ _ _ _ fields _ _ => fields.map (·.ty)
  | .interface _ _ _ _ _ methods props _ =>
    methods.flatMap (fun m => m.params.map paramType ++ (m.throwing.getD []) ++ m.ret.toList) ++ props.map (·.ty)
  | .function _ _ (.mk _ _ params thr ret) _ => params.map paramType ++ (thr.getD []) ++ ret.toList
  | .error _ _ codes _ => codes.flatMap (fun c => c.params.map paramType)

/-- `<optional>` is included iff some flattened dependency is optional -/
def needsOptionalHeader (ns : List String) (d : Decl) : Bool := (depsOfDecl ns d).any (·.optional)

mutual
/-- does the written text of the declaration contain `std::optional<…>` at the declaration's own level? (an
    optional reference to anything but an interface — a nullable pointer — ; inline function types are not wrapped) -/
def writesStdOptional (isPtrLike : List String → String → Bool) (ns : List String) : TypeRef → Bool
  | .data name args opt _ => (opt && !isPtrLike ns name) || writesStdOptionalTs isPtrLike ns args
  | .fn _ _ => false
def writesStdOptionalTs (isPtrLike : List String → String → Bool) (ns : List String) : List TypeRef → Bool
  | [] => false
  | t :: ts => writesStdOptional isPtrLike ns t || writesStdOptionalTs isPtrLike ns ts
end

end Pydjinni.Gen
