/-!
# Comment-derived text on its way into generated files (property C12)

Model of `generator.py: comment_filter` (the Jinja filter `comment` of every generator), of Jinja's
`indent` filter that the templates apply after it, and of the `deprecated` string builders of the
C++ (`cpp/type.py: deprecated`), Objective-C (`ObjcBaseCommentModel.deprecated`) and C++/CLI
(`CppCliBaseCommentModel.deprecated`) generators with their shared `filters.py: string_literal`. Everything works on `List Char`; the Markdown
renderers (mistune) are not modelled: every function here takes the *rendered* text as an arbitrary
string.

```python
def comment_filter(content: str):
    def neutralise(line: str) -> str:
        line = line.replace('*/', '&#42;/').replace('\\u', '&#92;u')
        stripped = line.rstrip()
        return stripped[:-1] + '&#92;' if stripped.endswith('\\') else line
    output = ""
    if self.comment_start_string is not None:
        output += f'{self.comment_start_string}\n'
    output += self.comment_line_prefix
    output += f'\n{self.comment_line_prefix}'.join(neutralise(line) for line in content.splitlines() or [''])
    if self.comment_end_string is not None:
        output += f'\n{self.comment_end_string}'
    return output
```
-/
namespace Pydjinni.Gen.Comment

/-- comment style of a generator: `comment_start_string`, `comment_line_prefix`, `comment_end_string` -/
structure Style where
  start : Option (List Char)
  linePrefix : List Char
  stop : Option (List Char)
deriving DecidableEq, Repr

/-- `Generator` defaults: cpp, java, jni, cppcli, objcpp, yaml -/
def blockStyle : Style := ⟨some ['/', '*', '*'], [' ', '*', ' '], some [' ', '*', '/']⟩
/-- `ObjcGenerator` -/
def lineStyle : Style := ⟨none, ['/', '/', '/', ' '], none⟩

/-! ## Python string functions -/

/-- line boundaries of `str.splitlines()` (`\r\n` counts once, see `splitLinesAux`) -/
def isLineBreak (c : Char) : Bool :=
  c == '\n' || c == '\r' || c == '\x0b' || c == '\x0c' || c == '\x1c' || c == '\x1d' || c == '\x1e' ||
  c == '\x85' || c == '\u2028' || c == '\u2029'

/-- `afterCR`: the previous character was `\r` (a following `\n` belongs to the same boundary);
    `cur`: the current line so far -/
def splitLinesAux : Bool → List Char → List Char → List (List Char)
  | _, cur, [] => if cur = [] then [] else [cur]
  | afterCR, cur, c :: rest =>
    if afterCR = true ∧ c = '\n' then splitLinesAux false cur rest
    else if isLineBreak c = true then cur :: splitLinesAux (c == '\r') [] rest
    else splitLinesAux false (cur ++ [c]) rest

/-- `str.splitlines()` -/
def splitLines (s : List Char) : List (List Char) := splitLinesAux false [] s

/-- `str.isspace()` of one character: what `str.rstrip()` removes -/
def isPyWs (c : Char) : Bool :=
  ('\t' ≤ c && c ≤ '\r') || ('\x1c' ≤ c && c ≤ ' ') || c == '\x85' || c == '\xa0' || c == '\u1680' ||
  ('\u2000' ≤ c && c ≤ '\u200a') || c == '\u2028' || c == '\u2029' || c == '\u202f' || c == '\u205f' || c == '\u3000'

/-- `str.rstrip()` -/
def rstrip (l : List Char) : List Char := (l.reverse.dropWhile isPyWs).reverse

/-- does the two-character pattern (a predicate on adjacent characters) start at `c :: rest`? -/
def pairAt (p : Char → Char → Bool) (c : Char) (rest : List Char) : Bool :=
  match rest.head? with
  | some d => p c d
  | none => false

/-- `l.replace(ab, ent + b)` for a two-character pattern `ab` given as a predicate on adjacent
    characters: the first character of every occurrence becomes `ent` -/
def escFirst (p : Char → Char → Bool) (ent : List Char) : List Char → List Char
  | [] => []
  | c :: rest => if pairAt p c rest = true then ent ++ escFirst p ent rest else c :: escFirst p ent rest

/-- the pattern occurs nowhere -/
def noPair (p : Char → Char → Bool) : List Char → Bool
  | [] => true
  | c :: rest => !pairAt p c rest && noPair p rest

def closerP (a b : Char) : Bool := a == '*' && b == '/'
def buP (a b : Char) : Bool := a == '\\' && b == 'u'
def ent42 : List Char := ['&', '#', '4', '2', ';']
def ent92 : List Char := ['&', '#', '9', '2', ';']

/-- `neutralise(line)` -/
def neutralise (line : List Char) : List Char :=
  let l2 := escFirst buP ent92 (escFirst closerP ent42 line)
  if (rstrip l2).getLast? = some '\\' then (rstrip l2).dropLast ++ ent92 else l2

/-- `[neutralise(line) for line in content.splitlines() or ['']]` -/
def cfLines (s : List Char) : List (List Char) :=
  (if splitLines s = [] then [[]] else splitLines s).map neutralise

/-! ## the wrapper, with the indentation a following `| indent(w)` adds -/

def spaces (n : Nat) : List Char := List.replicate n ' '

/-- separator between two lines of the comment: newline, indentation, line prefix -/
def sep (st : Style) (ind : Nat) : List Char := '\n' :: (spaces ind ++ st.linePrefix)

def joinLines (st : Style) (ind : Nat) : List (List Char) → List Char
  | [] => []
  | l :: ls => sep st ind ++ l ++ joinLines st ind ls

/-- the comment made of the given (already neutralised) lines; `ind` = indentation of every line but the first.
    `cfLines` never returns the empty list. -/
def commentBlock (st : Style) (ind : Nat) : List (List Char) → List Char
  | [] => []
  | l :: ls =>
    (match st.start with | some a => a ++ '\n' :: spaces ind | none => []) ++ st.linePrefix ++ l ++ joinLines st ind ls ++
    (match st.stop with | some e => '\n' :: (spaces ind ++ e) | none => [])

/-- `comment_filter(content)` -/
def commentFilter (st : Style) (s : List Char) : List Char := commentBlock st 0 (cfLines s)

/-- Jinja `do_indent(s, width=w, first=False, blank=False)`:
    `s += "\n"; lines = s.splitlines(); rv = lines.pop(0); rv += "\n" + "\n".join(w*" " + line if line else line …)` -/
def jinjaIndent (w : Nat) (s : List Char) : List Char :=
  match splitLines (s ++ ['\n']) with
  | [] => []
  | l :: ls => l ++ (ls.map (fun x => '\n' :: (if x = [] then [] else spaces w ++ x))).flatten

/-! ## deprecation messages -/

inductive Dep | no | yes | msg (m : List Char)
deriving DecidableEq, Repr, Inhabited

def Dep.truthy : Dep → Bool
  | .no => false | .yes => true | .msg m => !m.isEmpty

/-- `_STRING_LITERAL_ESCAPES` of `generator/filters.py`: quote, backslash and every character that ends a line for a
    compiler or for `str.splitlines` -/
def escTable : List (Char × List Char) := [
  ('\\', ['\\', '\\']), ('"', ['\\', '"']), ('\n', ['\\', 'n']), ('\r', ['\\', 'r']), ('\x0b', ['\\', 'v']), ('\x0c', ['\\', 'f']),
  ('\x1c', ['\\', '0', '3', '4']), ('\x1d', ['\\', '0', '3', '5']), ('\x1e', ['\\', '0', '3', '6']), ('\x85', ['\\', '2', '0', '5']),
  ('\u2028', ['\\', 'u', '2', '0', '2', '8']), ('\u2029', ['\\', 'u', '2', '0', '2', '9'])]

def tableGet (t : List (Char × List Char)) (c : Char) : Option (List Char) :=
  match t with
  | [] => none
  | p :: rest => if p.1 = c then some p.2 else tableGet rest c

/-- `_STRING_LITERAL_ESCAPES.get(c, c)` -/
def escChar (c : Char) : List Char :=
  match tableGet escTable c with
  | some e => e
  | none => [c]

/-- body of `string_literal(text)` -/
def escDep (s : List Char) : List Char := s.flatMap escChar

def quoted (m : List Char) : List Char := '(' :: '"' :: (escDep m ++ ['"', ')'])

def cppDepHead : List Char := ['[', '[', 'd', 'e', 'p', 'r', 'e', 'c', 'a', 't', 'e', 'd']
def cppDepTail : List Char := [']', ']']
def objcDepHead : List Char := ['D', 'E', 'P', 'R', 'E', 'C', 'A', 'T', 'E', 'D', '_', 'M', 'S', 'G', '_', 'A', 'T', 'T', 'R', 'I', 'B', 'U', 'T', 'E']
def objcDepBare : List Char := ['D', 'E', 'P', 'R', 'E', 'C', 'A', 'T', 'E', 'D', '_', 'A', 'T', 'T', 'R', 'I', 'B', 'U', 'T', 'E']
def cliDepHead : List Char := ['[', 'S', 'y', 's', 't', 'e', 'm', ':', ':', 'O', 'b', 's', 'o', 'l', 'e', 't', 'e']

/-- `cpp/type.py: deprecated(decl, prefix, postfix)` -/
def deprecatedCpp (d : Dep) (pre post : List Char) : List Char :=
  if d.truthy then
    pre ++ cppDepHead ++ (match d with | .msg m => quoted m | _ => []) ++ cppDepTail ++ post
  else []

/-- `ObjcBaseCommentModel.deprecated` -/
def deprecatedObjc : Dep → List Char
  | .msg m => objcDepHead ++ quoted m
  | .yes => objcDepBare
  | .no => []

/-- `CppCliBaseCommentModel.deprecated` (the templates only emit it for a deprecated declaration) -/
def deprecatedCppCli (d : Dep) : List Char :=
  cliDepHead ++ (match d with | .msg m => quoted m | _ => []) ++ [']']

/-! ## from the rendered text to the bytes on disk

`Generator.write_header` / `write_source` hand the rendered template to `FileReaderWriter.write_header` / `write_source`,
which call `_write(filename, content)`: `filename.write_text(content)`. Nothing stands between the comment filter /
the deprecation builders and the file: the characters on disk are the rendered characters. -/

/-- `FileReaderWriter._write`: the content of the file afterwards -/
def written (content : List Char) : List Char := content

/-- a stage that deletes every occurrence of one character (what a writer that "cleans" the rendered file would do) -/
def eraseChar (z : Char) (l : List Char) : List Char := l.filter (· != z)

/-- does `string_literal` write an escape sequence for `c`? -/
def needsEsc (c : Char) : Bool := (tableGet escTable c).isSome

/-- a `string_literal` that writes escape sequences for the first `n` characters that need one only
    (`re.sub(pattern, repl, text, n)`) -/
def escDepN : Nat → List Char → List Char
  | _, [] => []
  | n, c :: r =>
    if needsEsc c = true then
      match n with
      | 0 => c :: escDepN 0 r
      | k + 1 => escChar c ++ escDepN k r
    else c :: escDepN n r

/-! ## where comment-derived values occur in the templates (facts regenerated from the Jinja ASTs on every run) -/

/-- one occurrence of a comment-carrying attribute (`comment`, `constructor_comment`, `deprecated`, `attributes`) in a template:
    `root` is the generator key the attribute is read from (`type_def.cpp.comment` ↦ "cpp"; "" for the raw AST value),
    `path` the chain of Jinja AST node kinds (with the field taken) from the template root down to the occurrence -/
structure Sink where
  gen : String
  tmpl : String
  line : Nat
  root : String
  attr : String
  path : List String
deriving Repr

def isTestCtx (p : String) : Bool := p.endsWith ".test" || p == "Call:disable_deprecation_warnings.args"

/-- An occurrence is harmless if it is only tested; a rendered comment must be the direct operand of the `comment`
    filter, followed by nothing but `indent`; the `deprecated` builders (modelled above) and the attribute lists built
    from them may be printed as they are. Everything else — a call, another filter, a raw AST value in an output,
    an occurrence outside an output statement — is rejected. -/
def sinkOk (s : Sink) : Bool :=
  if s.path.any isTestCtx then true
  else if !s.path.contains "Output.nodes" then false
  else
    let inner := (s.path.dropWhile (· != "Output.nodes")).drop 1
    if s.attr == "comment" || s.attr == "constructor_comment" then
      s.root != "" && inner.getLast? == some "Filter:comment.node" && inner.dropLast.all (· == "Filter:indent.node")
    else if s.attr == "deprecated" then
      ["cpp", "cppcli", "objc", "jni"].contains s.root && inner.all (fun p => p == "Concat.nodes" || p == "Filter:indent.node")
    else if s.attr == "attributes" then
      ["objc", "objcpp"].contains s.root &&
        inner.all (fun p => ["Concat.nodes", "Filter:indent.node", "Filter:concat.node", "Filter:join.node"].contains p)
    else false

end Pydjinni.Gen.Comment
