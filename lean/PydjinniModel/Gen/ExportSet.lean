import PydjinniModel.Front.Order
/-!
The named types of an *exporting program*: what the yaml target has to write a document for.

A program is its root file and every file reachable from it by `@import` (`Front/Order.lean`: `rootOrder`, the files in the
order in which the parser finishes them — imported files before the importing file, a file that is imported twice once).
`declared` lists the qualified name of every declaration of every one of these files, with the declaring file: the root
parser hands exactly these to the generators (`imported_type_decls + type_decls`), a nested parser hands *its* list — its
own declarations and everything handed to it — upwards. Import-free.
-/
namespace Pydjinni.Gen.ExportSet
open Pydjinni.Front

/-- (qualified name, declaring file) of every declaration of the files of a program, in the order of the files -/
def declaredOf (prog : List ProgFile) : List (String × String) :=
  (progDecls prog).map (fun x => (declKey x.2.1 x.2.2, x.1))

/-- the named types of the program reachable from `root`; `none` if a file is outside the grammar -/
def declared (cfg : Cfg) (fs : List (APath × FileContent)) (root : APath) : Option (List (String × String)) :=
  (programInOrder cfg fs root).map declaredOf

end Pydjinni.Gen.ExportSet
