/-!
# The extern round trip (property C13): what the yaml target writes, what `@extern` loads, what dependants read

* `export d` — `YamlGenerator.generate_type_dict`: `type_def.model_dump(mode='json', exclude_none=True, exclude=<fields of
  the AST class that are not fields of BaseExternalType>)`. A declaration is a `BaseType` (`extra='allow'`), the marshalling
  objects of the generators are extra attributes (`type_def.cpp`, `type_def.java`, …) and are dumped with exactly their
  `@computed_field`s (`decl` and `config` are excluded fields); `None` values are dropped.
* `load spec doc` — `Resolver.load_external`: `external_type_model.model_validate(doc)`; the model has one optional field per
  generator whose type is that generator's `…ExternalType` model: unknown keys are ignored, missing keys get the field's
  default, a missing required key is a validation error.
* `view t a` — what a dependant sees when it reads attribute `a` through `….type_def`: for a local declaration *any*
  property of the marshalling object (computed or not) or attribute of the AST node; for a loaded type only the model's
  fields. `none` is Python's `AttributeError` / Jinja's undefined value.

The marshalling property values themselves (type names, headers, …) belong to C02/C07; here a declaration is given by the
table of its properties: name, value, and whether the property is a `@computed_field`.
-/
namespace Pydjinni.Gen.Yaml

inductive Val
  | str (s : String)
  | bool (b : Bool)
  | list (l : List String)
  | null
deriving DecidableEq, Repr, Inhabited

def Val.isNull : Val → Bool
  | .null => true
  | _ => false

/-- one property of a marshalling object -/
structure MProp where
  name : String
  value : Val          -- `.null` = Python `None`
  computed : Bool      -- decorated with `@computed_field`
deriving DecidableEq, Repr

/-- the fields of `BaseExternalType` (without `position`, which is excluded from dumps) -/
structure Base where
  fields : List (String × Val)     -- name, namespace, primitive, params, comment, deprecated (in this order)
deriving DecidableEq, Repr

structure LocalDecl where
  base : Base
  node : List (String × Val)               -- further attributes of the AST node (e.g. `error_codes`, `targets`) — never exported
  marsh : List (String × List MProp)       -- generator key ↦ properties of the attached marshalling object
deriving Repr

/-! ### value constraints of the external-type models (`Field(pattern=…)`)

The pinned tree constrains one field: `jni.translator` must be a (possibly `::`-led) `::`-joined list of C++ identifiers,
`^(::)?([a-zA-Z][a-zA-Z0-9_]*(::))*[a-zA-Z][a-zA-Z0-9_]*$`. The expression is modelled as the automaton it denotes; every other
string field takes any string (`jni.type_signature`, the Java / Objective-C type names, the header paths: whatever the naming
configuration and the identifiers of the IDL — letters, digits, `_` — produce). -/

inductive Pat
  | any
  | cppName
deriving DecidableEq, Repr, Inhabited

def isAlphaC (c : Char) : Bool := ('a' ≤ c && c ≤ 'z') || ('A' ≤ c && c ≤ 'Z')
def isWordC (c : Char) : Bool := isAlphaC c || ('0' ≤ c && c ≤ '9') || c == '_'

/-- states of the automaton of `ID(::ID)*`: before an identifier, inside one, after one `:` -/
inductive NameSt | start | ident | colon
deriving DecidableEq, Repr

def nameStep : NameSt → Char → Option NameSt
  | .start, c => if isAlphaC c then some .ident else none
  | .ident, c => if isWordC c then some .ident else if c = ':' then some .colon else none
  | .colon, c => if c = ':' then some .start else none

def nameRun : NameSt → List Char → Option NameSt
  | s, [] => some s
  | s, c :: cs =>
    match nameStep s c with
    | some s' => nameRun s' cs
    | none => none

/-- the optional leading `::` -/
def dropLead : List Char → List Char
  | ':' :: ':' :: r => r
  | s => s

def cppNameOk (s : List Char) : Bool := nameRun .start (dropLead s) == some .ident

def Pat.accepts : Pat → Val → Bool
  | .any, _ => true
  | .cppName, .str s => cppNameOk s.toList
  | .cppName, _ => true          -- (the constraint is on a string field; other values fail the type check, not the pattern)

/-- the patterns of the live models that the model implements: (generator, field, expression as written) -/
def modelledPatterns : List (String × String × String) :=
  [("jni", "translator", "^(::)?([a-zA-Z][a-zA-Z0-9_]*(::))*[a-zA-Z][a-zA-Z0-9_]*$")]

/-- generated obligation: every `pattern=` of a live external-type model is one the model implements -/
def patternsModelled (live : List (String × String × String)) : Bool := live.all (modelledPatterns.contains ·)

/-- one field of a generator's external-type model -/
structure FieldSpec where
  name : String
  required : Bool
  default : Val
  pat : Pat := .any
deriving DecidableEq, Repr

abbrev ExtSpec := List (String × List FieldSpec)

/-- a YAML document -/
structure Doc where
  base : List (String × Val)
  gens : List (String × List (String × Val))
deriving DecidableEq, Repr

/-- a loaded external type: per generator `none` (key absent: the field's default `None`) or the validated fields -/
structure ExtType where
  base : List (String × Val)
  gens : List (String × Option (List (String × Val)))
deriving DecidableEq, Repr

def lookup (k : String) : List (String × α) → Option α
  | [] => none
  | (k', v) :: rest => if k' = k then some v else lookup k rest

def findProp (a : String) : List MProp → Option MProp
  | [] => none
  | p :: rest => if p.name = a then some p else findProp a rest

/-- dumped: a `@computed_field` whose value is not `None` (`exclude_none=True`) -/
def MProp.exported (p : MProp) : Bool := p.computed && !p.value.isNull

def exportProps : List MProp → List (String × Val)
  | [] => []
  | p :: rest => if p.exported = true then (p.name, p.value) :: exportProps rest else exportProps rest

/-- `generate_type_dict` -/
def «export» (d : LocalDecl) : Doc :=
  { base := d.base.fields.filter (fun kv => !kv.2.isNull),
    gens := d.marsh.map (fun (g, ps) => (g, exportProps ps)) }

/-- the value of every constrained field that the document gives matches the field's pattern -/
def patsOk (fs : List FieldSpec) (kv : List (String × Val)) : Bool :=
  fs.all (fun f => match lookup f.name kv with | some v => f.pat.accepts v | none => true)

def loadFields (fs : List FieldSpec) (kv : List (String × Val)) : Option (List (String × Val)) :=
  if fs.all (fun f => !f.required || (lookup f.name kv).isSome) && patsOk fs kv then
    some (fs.map (fun f => (f.name, (lookup f.name kv).getD f.default)))
  else none

def loadGens (doc : Doc) : ExtSpec → Option (List (String × Option (List (String × Val))))
  | [] => some []
  | (g, fs) :: rest =>
    match lookup g doc.gens with
    | none => (loadGens doc rest).map ((g, none) :: ·)
    | some kv =>
      match loadFields fs kv, loadGens doc rest with
      | some vals, some r => some ((g, some vals) :: r)
      | _, _ => none

/-- defaults of the base fields that `exclude_none` can drop: `comment: None` -/
def baseDefaults : List (String × Val) := [("comment", .null)]

/-- `external_type_model.model_validate(doc)`; `none` = validation error -/
def load (spec : ExtSpec) (doc : Doc) : Option ExtType :=
  (loadGens doc spec).map (fun gs =>
    { base := doc.base ++ baseDefaults.filter (fun kv => (lookup kv.1 doc.base).isNone), gens := gs })

inductive TypeDef
  | «local» (d : LocalDecl)
  | ext (e : ExtType)

/-- attribute `(generator key | "", name)` read through a type definition -/
abbrev Attr := String × String

/-- the include a dependant emits for a type (`filters.py: headers`): a local base record (`+cpp`/`+objc`/`+cppcli` record,
    `base_type` truthy) contributes its `derived_header`, everything else its `header` -/
def effHeaderLocal (ps : List MProp) : Option Val :=
  match findProp "base_type" ps, findProp "derived_header" ps with
  | some b, some dh => if b.value = .bool true then some dh.value else (findProp "header" ps).map (·.value)
  | _, _ => (findProp "header" ps).map (·.value)

def view : TypeDef → Attr → Option Val
  | .local d, (g, a) =>
    if g = "" then
      match lookup a d.base.fields with
      | some v => some v
      | none => lookup a d.node
    else
      match lookup g d.marsh with
      | none => none
      | some ps => if a = "<header>" then effHeaderLocal ps else (findProp a ps).map (·.value)
  | .ext e, (g, a) =>
    if g = "" then lookup a e.base
    else
      match lookup g e.gens with
      | some (some kv) => lookup (if a = "<header>" then "header" else a) kv
      | _ => none

/-- registry key of a type: `'.'.join(namespace + [name])` -/
def registryKey (base : List (String × Val)) : Option (List String × String) :=
  match lookup "namespace" base, lookup "name" base with
  | some (.list ns), some (.str n) => some (ns, n)
  | _, _ => none

/-! ## `Resolver.load_external` over a whole file written by the yaml target

For every document of the file: `model_validate`, then the loader *tries* to find the line `name: <name>` with a regular
expression (only to give the type a position for diagnostics / go-to-definition), then `register`. Whether the line is found
depends on how `yaml.dump` spelled the name: an IDL identifier that the YAML 1.1 resolver of PyYAML reads as a bool or as null
(`on`, `No`, `TRUE`, `null`, …) is written single-quoted (`name: 'on'`) and is not found. The registration does not depend
on it.
(Dom clause `distinctNamesPerTypeFile` of the pinned tree: without `out_file` the documents are written to `<name>.yaml`, so
the list of documents a dependant can load is the list of exports only if the bare names are distinct — finding
`yaml:document-set:same-name-per-type-file`.) -/

/-- the identifiers PyYAML's implicit resolver reads as `bool` or `null` (the other resolvers — int, float, timestamp, merge,
    value — need a digit, a sign, `.`, `<` or `=` and never match `Letter (Letter|Digit|_)*`) -/
def yamlWords : List String :=
  ["yes", "Yes", "YES", "no", "No", "NO", "true", "True", "TRUE", "false", "False", "FALSE",
   "on", "On", "ON", "off", "Off", "OFF", "null", "Null", "NULL"]

/-- `yaml.dump` writes the identifier as a plain scalar -/
def plainScalar (s : String) : Bool := !yamlWords.contains s

/-- one entry of `Resolver.registry` -/
structure Entry where
  key : List String × String
  ext : ExtType
  located : Bool      -- `position` has line and columns (the `name:` line was found); otherwise only the file
deriving DecidableEq, Repr

inductive FileResult
  | ok (reg : List Entry)
  | invalid                                  -- pydantic.ValidationError -> InputParsingException
  | duplicate (key : List String × String)   -- `register`: TypeResolvingException "already exists"
deriving DecidableEq, Repr

def hasKey (k : List String × String) : List Entry → Bool
  | [] => false
  | e :: rest => e.key = k || hasKey k rest

/-- `load_external` on the documents of one file, on top of the registry `reg` -/
def loadFile (spec : ExtSpec) : List Doc → List Entry → FileResult
  | [], reg => .ok reg
  | d :: ds, reg =>
    match load spec d with
    | none => .invalid
    | some e =>
      match registryKey e.base with
      | none => .invalid                     -- `name` / `namespace` are required fields of the model
      | some k =>
        if hasKey k reg then .duplicate k
        else loadFile spec ds (reg ++ [{ key := k, ext := e, located := plainScalar k.2 }])

/-! ## where `@extern "<path>"` finds the file (`Parser.visitFilepath`)

The dependent program names the exported file by a path literal; the parser tries, in this order, the literal as given
(absolute, or relative to the working directory), the literal relative to the directory of the IDL file that contains the
directive, and the literal relative to each configured include directory in order; the first candidate that exists and is not
a directory is loaded. A workspace is described by what stands at each of these candidates: nothing, a directory, or a file
(`α`: whatever identifies the file — its path, its documents). Files of the same relative name further down the search
order (another export of the same library in an include directory, …) are *decoys*: they never win. -/

inductive Slot (α : Type) where
  | absent
  | dir
  | file (a : α)
deriving DecidableEq, Repr

def Slot.isFile {α : Type} : Slot α → Bool
  | .file _ => true
  | _ => false

/-- the candidates of one `@extern` literal, in search order -/
def searchOrder {α : Type} (asGiven nextToIdl : Slot α) (includeDirs : List (Slot α)) : List (Slot α) :=
  asGiven :: nextToIdl :: includeDirs

/-- first candidate that `exists() and not is_dir()` -/
def locate {α : Type} : List (Slot α) → Option α
  | [] => none
  | .file a :: _ => some a
  | _ :: rest => locate rest

/-- the registry a dependent program starts from: the documents of the located file through `load_external`;
    `none`: FileNotFoundException at the directive -/
def externRegistry (spec : ExtSpec) (cands : List (Slot (List Doc))) : Option FileResult :=
  (locate cands).map (fun docs => loadFile spec docs [])

/-! ## re-export histories: the same paths, round after round, in one process

A library is exported, a dependent program pulls the files in with `@extern`; then the library is exported *again to the same paths*
(another naming configuration, edited declarations) and the dependent program is parsed again. `Resolver.load_external` of the
pinned tree reads the file every time (`path.read_text()`): what a round registers is a function of what the files hold *now*. -/

/-- the files of a directory tree: path ↦ documents; the latest write of a path stands in front -/
abbrev Disk := List (String × List Doc)

def Disk.write (disk : Disk) (files : List (String × List Doc)) : Disk := files ++ disk

def Disk.read (disk : Disk) (p : String) : Option (List Doc) := lookup p disk

/-- `load_external` of the given files, in order, into one registry; `none`: a file does not exist -/
def loadPaths (spec : ExtSpec) (disk : Disk) : List String → List Entry → Option FileResult
  | [], reg => some (.ok reg)
  | p :: ps, reg =>
    match disk.read p with
    | none => none
    | some docs =>
      match loadFile spec docs reg with
      | .ok reg' => loadPaths spec disk ps reg'
      | r => some r

structure Round where
  written : List (String × List Doc)    -- what the yaml target writes in this round (paths as written)
  externs : List String                 -- the files the dependent program of this round names in `@extern` directives
deriving Repr

/-- the registry of the dependent program of every round -/
def runRounds (spec : ExtSpec) : Disk → List Round → List (Option FileResult)
  | _, [] => []
  | disk, r :: rs => loadPaths spec (disk.write r.written) r.externs [] :: runRounds spec (disk.write r.written) rs

/-- a round that names only files it has written itself -/
def Round.closed (r : Round) : Bool := r.externs.all (fun p => (lookup p r.written).isSome)

/-- what the round registers when nothing else was ever written -/
def Round.alone (spec : ExtSpec) (r : Round) : Option FileResult := loadPaths spec r.written r.externs []

/-! ## tables regenerated from the live source on every run, and the checks over them -/

/-- attributes of a type that dependants read through `….type_def` (templates and generator Python), with the context
    they are read in: "any" type reference, or only an "error" domain named in a `throws` clause -/
structure Used where
  gen : String
  attr : String
  ctx : String
deriving DecidableEq, Repr

def baseFieldNames : List String := ["name", "namespace", "primitive", "params", "comment", "deprecated", "position"]

/-- can a loaded external type answer the read? -/
def loadable (spec : List (String × List (String × Bool))) (u : Used) : Bool :=
  if u.gen = "" then baseFieldNames.contains u.attr
  else match lookup u.gen spec with
    | some fs => fs.any (fun f => f.1 = (if u.attr = "<header>" then "header" else u.attr))
    | none => false

/-- **Domain clauses of the pinned tree** (each is a finding `attr:<gen>.<attr>`): reads a loaded type cannot answer.
    All but the last two are only listed for reads in the context of the error domain of a `throws` clause (`noExternErrorDomainThrown`); the effective
    header needs `base_type`/`derived_header` of a `+cpp`/`+objc`/`+cppcli` base record (`noExternBaseRecord`). -/
def knownMissing : List (String × String × String) :=
  [("", "error_codes", "error"), ("java", "name", "error"), ("jni", "name", "error"), ("jni", "namespace", "error"),
   ("objc", "domain_name", "error"), ("objcpp", "name", "error"), ("objcpp", "namespace", "error"),
   ("*", "base_type", "any"), ("*", "derived_header", "any")]   -- "*": every generator `headers` is called with

def usedOk (spec : List (String × List (String × Bool))) (u : Used) : Bool :=
  loadable spec u || knownMissing.contains (u.gen, u.attr, u.ctx) || knownMissing.contains ("*", u.attr, u.ctx)

/-- every loadable attribute that dependants read is a computed field of the marshalling class of every declaration kind -/
def exportedOk (spec : List (String × List (String × Bool))) (computed : List (String × String × List String)) (u : Used) : Bool :=
  u.gen = "" || !loadable spec u ||
    computed.all (fun (kind, g, names) =>
      g ≠ u.gen || (u.ctx = "error" && kind ≠ "ErrorDomain") || names.contains (if u.attr = "<header>" then "header" else u.attr))

/-- every required field of a generator's external-type model is a computed field for every declaration kind -/
def requiredOk (spec : List (String × List (String × Bool))) (computed : List (String × String × List String)) : Bool :=
  computed.all (fun (_, g, names) =>
    match lookup g spec with
    | some fs => fs.all (fun f => !f.2 || names.contains f.1)
    | none => true)

end Pydjinni.Gen.Yaml
