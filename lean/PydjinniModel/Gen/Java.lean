import PydjinniModel.Gen.Types
import PydjinniModel.Lang.JavaDesc
/-!
# Java marshalling (`generator/java/java/type.py`) and what the Java templates declare

Two views of the same computation:
* strings, exactly as `compute_data_type` / `compute_return_type` / `apply_type_annotation` build them (C02);
* structured `JType`s (annotations dropped) from which `Lang/JavaDesc.desc` gives the JVM descriptor (C07).
-/
namespace Pydjinni.Gen

/-- `JavaBaseType.package` as a list of components -/
def javaPackageL (c : JavaCfg) (ns : List String) : List String :=
  c.package ++ ns.map (convert c.packageStyle)

def javaPackage (c : JavaCfg) (ns : List String) : String := joinS "." (javaPackageL c ns)

/-- the simple name a *reference* to the type uses (`typename` takes the un-suffixed record name;
    anonymous functions use `str.title()`) -/
def javaRefName (c : JavaCfg) : TDef → String
  | .builtin b => b.javaTypename
  | .user u => convert c.tyStyle u.name
  | .func u anonymous _ _ _ => if anonymous then title u.name else convert c.tyStyle u.name

/-- `type_def.java.typename` -/
def javaTypename (c : JavaCfg) : TDef → String
  | .builtin b => b.javaTypename
  | .user u =>
    let n := javaPackage c u.ns ++ "." ++ convert c.tyStyle u.name
    if u.prim == .flags then "java.util.EnumSet<" ++ n ++ ">" else n
  | d@(.func u _ _ _ _) => javaPackage c u.ns ++ "." ++ javaRefName c d

/-- `type_def.java.boxed` -/
def javaBoxed (c : JavaCfg) : TDef → String
  | .builtin b => b.javaBoxed
  | d => javaTypename c d

/-- Python `s.rsplit('.', maxsplit=1)` on characters: `none` when there is no dot -/
def rsplitDot (cs : List Char) : Option (List Char × List Char) :=
  let r := cs.reverse
  let tail := r.takeWhile (· != '.')
  if tail.length == r.length then none
  else some ((r.drop (tail.length + 1)).reverse, tail.reverse)

/-- `apply_type_annotation(type_input, annotation)`: the head of the type (before the first `<`) is split at
    its last dot and the annotation goes in front of the simple name -/
def applyAnnotation (ty : String) (ann : Option String) : String :=
  match ann with
  | none => ty
  | some a =>
    if a.isEmpty then ty else
    let cs := ty.toList
    let head := cs.takeWhile (· != '<')
    let rest := cs.drop head.length
    match rsplitDot head with
    | some (pkg, name) => String.ofList pkg ++ "." ++ a ++ " " ++ String.ofList name ++ String.ofList rest
    | none => a ++ " " ++ ty

/-- the annotated head of a written type: boxed name under `boxed` / optional, nullable / nonnull annotation -/
def javaHead (c : JavaCfg) (d : TDef) (optional boxed : Bool) : String :=
  applyAnnotation (if boxed || optional then javaBoxed c d else javaTypename c d) (if optional then c.nullable else c.nonnull)

mutual
/-- `compute_data_type(type_ref, boxed)` -/
def javaDataType (c : JavaCfg) : RType → Bool → String
  | .mk d args optional, boxed => applyArgs (javaHead c d optional boxed) (javaDataTypes c args)
/-- generic arguments are always boxed -/
def javaDataTypes (c : JavaCfg) : List RType → List String
  | [] => []
  | t :: ts => javaDataType c t true :: javaDataTypes c ts
end

/-- `compute_return_type(type_ref, asynchronous)` -/
def javaReturnType (c : JavaCfg) (t : Option RType) (async : Bool) : String :=
  let out := match t with
    | some t => javaDataType c t async
    | none => if async then "Void" else "void"
  if async then applyAnnotation "java.util.concurrent.CompletableFuture" c.nonnull ++ "<" ++ out ++ ">" else out

/-! ## structured view -/

/-- replace the type arguments of a class type (built-in collection rows carry none) -/
def JType.withArgs : JType → List JType → JType
  | .cls pkg name _, args => .cls pkg name args
  | t, _ => t

def javaUserJ (c : JavaCfg) (ns : List String) (simple : String) : JType := .cls (javaPackageL c ns) simple []

/-- structured `type_def.java.typename` (`boxed = false`) / `type_def.java.boxed` (`boxed = true`), without arguments -/
def javaHeadJ (c : JavaCfg) (d : TDef) (boxed : Bool) : JType :=
  match d with
  | .builtin b => if boxed then b.javaBoxedJ else b.javaJ
  | .user u =>
    let n := javaUserJ c u.ns (convert c.tyStyle u.name)
    if u.prim == .flags then .cls ["java", "util"] "EnumSet" [n] else n
  | .func u _ _ _ _ => javaUserJ c u.ns (javaRefName c d)

mutual
def javaJT (c : JavaCfg) : RType → Bool → JType
  | .mk d args optional, boxed =>
    let h := javaHeadJ c d (boxed || optional)
    if args.isEmpty then h else h.withArgs (javaJTs c args)
def javaJTs (c : JavaCfg) : List RType → List JType
  | [] => []
  | t :: ts => javaJT c t true :: javaJTs c ts
end

def completableFuture (arg : JType) : JType := .cls ["java", "util", "concurrent"] "CompletableFuture" [arg]

/-- structured `compute_return_type`; `none` is `void` -/
def javaRetJT (c : JavaCfg) (t : Option RType) (async : Bool) : Option JType :=
  if async then
    some (completableFuture (match t with | some t => javaJT c t true | none => .cls ["java", "lang"] "Void" []))
  else t.map (fun t => javaJT c t false)

/-! ## what the Java templates declare (C02 skeleton) -/

/-- `JavaRecord.name` / `JavaFunction.name` / `JavaBaseType.name`: the name of the *declared* class -/
def javaDeclName (c : JavaCfg) (u : UInfo) (anonymous : Bool) : String :=
  if u.prim == .record && u.targets.contains "java" then convert c.tyStyle (u.name ++ "_base")
  else if u.prim == .function && anonymous then title u.name
  else convert c.tyStyle u.name

def javaMember (c : JavaCfg) (f : FieldD) : MemberS := { ty := javaDataType c f.ty false, name := convert c.fieldStyle f.name }

def javaGetter (c : JavaCfg) (f : FieldD) : MethodS :=
  { pre := ["public"], ret := javaDataType c f.ty false, name := convert c.methodStyle ("get_" ++ f.name), params := [], post := [] }

/-- qualified class names of the thrown error domains (`error.type_def.java.typename`, after the `fix:` commit
    f437e03 that replaced the simple name), only for synchronous methods -/
def javaThrows (c : JavaCfg) (m : MethodD) : List String :=
  match m.throwing with
  | some l => if m.isAsync then [] else l.map (javaTypename c)
  | none => []

def javaMethod (c : JavaCfg) (m : MethodD) : MethodS :=
  { pre := ["public", if m.isStatic then "static" else "abstract"],
    ret := javaReturnType c m.ret m.isAsync, name := convert c.methodStyle m.name,
    params := m.params.map (javaMember c), post := javaThrows c m }

/-- `JavaDataField.field_modifier` (record fields and error-code parameters): `final ` iff `use_final_for_record` -/
def javaFieldMod (c : JavaCfg) : String := if c.useFinal then "final" else ""

/-- an error code is written like a record: a field, a constructor parameter and a getter per parameter
    (`Parameter: JavaDataField` in `JavaGenerator.marshal_models`) -/
def javaCode (c : JavaCfg) (k : CodeD) : CodeS :=
  { name := convert c.tyStyle k.name, fields := k.params.map (javaMember c), ctor := k.params.map (javaMember c),
    fmods := k.params.map (fun _ => javaFieldMod c), methods := k.params.map (javaGetter c) }

def javaSkel (c : JavaCfg) : Decl → DeclS
  | .enum u items =>
    { DeclS.empty with
      kind := "enum", name := javaDeclName c u false, scope := javaPackage c u.ns, items := items.map (convert c.enumStyle) }
  | .flags u items =>
    -- the Java enum lists only the ordinary flags (`if not flag.none and not flag.all`)
    { DeclS.empty with
      kind := "flags", name := javaDeclName c u false, scope := javaPackage c u.ns,
      items := (items.filter (fun f => !f.isNone && !f.isAll)).map (fun f => convert c.enumStyle f.name) }
  | .record u fields _ _ =>
    { DeclS.empty with
      kind := "struct", name := javaDeclName c u false, scope := javaPackage c u.ns,
      mods := (if c.classPublic then ["public"] else []) ++ (if c.useFinal && !u.targets.contains "java" then ["final"] else []),
      fields := fields.map (javaMember c), ctor := fields.map (javaMember c), methods := fields.map (javaGetter c),
      fmods := fields.map (fun _ => javaFieldMod c) }
  | .interface u methods =>
    { DeclS.empty with
      kind := "class", name := javaDeclName c u false, scope := javaPackage c u.ns,
      mods := (if c.classPublic then ["public"] else []) ++ ["abstract"], methods := methods.map (javaMethod c) }
  | .function u anonymous params ret _ =>
    { DeclS.empty with
      kind := "function", name := javaDeclName c u anonymous, scope := javaPackage c u.ns,
      mods := (if c.classPublic then ["public"] else []),
      methods := [{ pre := [], ret := javaReturnType c ret false, name := "invoke", params := params.map (javaMember c), post := [] }] }
  | .error u codes =>
    { DeclS.empty with
      kind := "error", name := javaDeclName c u false, scope := javaPackage c u.ns,
      codes := codes.map (javaCode c) }

end Pydjinni.Gen
