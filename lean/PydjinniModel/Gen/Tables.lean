import PydjinniModel.Gen.Types
import PydjinniModel.Lang.JavaDesc
/-!
# Well-formedness of a row of the built-in type tables

The translator writes the live tables of `/repo` to a generated Lean file on every run and checks these
decidable predicates for every row (`decide`).  They are exactly the hypotheses about built-ins that the
C02 / C07 theorems carry, so a wrong table entry in `/repo` breaks an obligation, not silently a theorem's
applicability.
-/
namespace Pydjinni.Gen

/-- the wrapper class of a Java primitive; reference types are their own box -/
def boxOf : JType → JType
  | .prim "boolean" => .cls ["java", "lang"] "Boolean" []
  | .prim "byte" => .cls ["java", "lang"] "Byte" []
  | .prim "char" => .cls ["java", "lang"] "Character" []
  | .prim "short" => .cls ["java", "lang"] "Short" []
  | .prim "int" => .cls ["java", "lang"] "Integer" []
  | .prim "long" => .cls ["java", "lang"] "Long" []
  | .prim "float" => .cls ["java", "lang"] "Float" []
  | .prim "double" => .cls ["java", "lang"] "Double" []
  | t => t

def cppArithmetic : List String :=
  ["bool", "char", "int8_t", "int16_t", "int32_t", "int64_t", "uint8_t", "uint16_t", "uint32_t", "uint64_t", "float", "double"]

/-- Foundation class types are passed by pointer; scalar typedefs by value -/
def objcClassType (typename : String) : Bool := typename.startsWith "NS"

/-! ## reference table of the built-in types (specification side; written by hand, not read from `/repo`) -/

structure RefRow where
  name : String
  cpp : String
  java : JType
  objc : String
  cli : String

def jl (n : String) : JType := .cls ["java", "lang"] n []
def ju (n : String) : JType := .cls ["java", "util"] n []

def refRows : List RefRow := [
  { name := "bool", cpp := "bool", java := .prim "boolean", objc := "BOOL", cli := "bool" },
  { name := "i8", cpp := "int8_t", java := .prim "byte", objc := "int8_t", cli := "char" },
  { name := "i16", cpp := "int16_t", java := .prim "short", objc := "int16_t", cli := "short" },
  { name := "i32", cpp := "int32_t", java := .prim "int", objc := "int32_t", cli := "int" },
  { name := "i64", cpp := "int64_t", java := .prim "long", objc := "int64_t", cli := "__int64" },
  { name := "f32", cpp := "float", java := .prim "float", objc := "float", cli := "float" },
  { name := "f64", cpp := "double", java := .prim "double", objc := "double", cli := "double" },
  { name := "string", cpp := "std::string", java := jl "String", objc := "NSString", cli := "System::String" },
  { name := "binary", cpp := "std::vector<uint8_t>", java := .arr (.prim "byte"), objc := "NSData", cli := "array<System::Byte>" },
  { name := "date", cpp := "std::chrono::system_clock::time_point", java := .cls ["java", "time"] "Instant" [], objc := "NSDate", cli := "System::DateTime" },
  { name := "list", cpp := "std::vector", java := ju "ArrayList", objc := "NSArray", cli := "System::Collections::Generic::List" },
  { name := "set", cpp := "std::unordered_set", java := ju "HashSet", objc := "NSSet", cli := "System::Collections::Generic::HashSet" },
  { name := "map", cpp := "std::unordered_map", java := ju "HashMap", objc := "NSDictionary", cli := "System::Collections::Generic::Dictionary" }]

/-- the reference row of a built-in; a built-in the reference table does not know (a future addition) is
    taken from the live row -/
def refRow (b : Builtin) : RefRow :=
  match refRows.find? (·.name == b.name) with
  | some r => r
  | none => { name := b.name, cpp := b.cppTypename, java := b.javaJ, objc := b.objcTypename, cli := b.cliTypename }

/-- scalars are boxed as `NSNumber` in collections and optionals -/
def objcBoxOf (typename : String) : String := if objcClassType typename then typename else "NSNumber"

/-- C++/CLI value types (no `^`) are the arithmetic types, `bool` and `System::DateTime` -/
def cliValueTypes : List String := ["bool", "char", "short", "int", "__int64", "float", "double", "System::DateTime"]

/-- the Java spelling of a built-in carries no type arguments of its own (collections get theirs from the reference) -/
def jtNoArgs : JType → Bool
  | .cls _ _ args => args.isEmpty
  | _ => true

/-- Java: the live spellings are those of the reference table, the translator's parse is faithful, and
    `boxed` is the box of `typename` -/
def Builtin.javaOK (b : Builtin) : Bool :=
  printJ b.javaJ == b.javaTypename && printJ b.javaBoxedJ == b.javaBoxed &&
  b.javaTypename == printJ (refRow b).java && b.javaBoxed == printJ (boxOf (refRow b).java) &&
  jtNoArgs b.javaJ && jtNoArgs b.javaBoxedJ && jtNoArgs (refRow b).java

/-- JNI descriptors and the native C type are those of the Java types -/
def Builtin.jniOK (b : Builtin) : Bool :=
  b.jniSig == desc b.javaJ && b.jniBoxedSig == desc b.javaBoxedJ && b.jniTypename == jniCType b.javaJ &&
  -- the boxed form travels as `jobject`, except strings and byte arrays (which are their own box)
  jniCType b.javaBoxedJ == (if b.jniTypename == "jstring" || b.jniTypename == "jbyteArray" then b.jniTypename else "jobject")

/-- C++: reference spelling; passed by value iff arithmetic / bool -/
def Builtin.cppOK (b : Builtin) : Bool :=
  b.cppTypename == (refRow b).cpp && b.cppByValue == cppArithmetic.contains b.cppTypename

/-- Objective-C: reference spelling; `pointer` iff class type; the boxed form is the `NSNumber` box -/
def Builtin.objcOK (b : Builtin) : Bool :=
  b.objcTypename == (refRow b).objc && b.objcPointer == objcClassType b.objcTypename && b.objcBoxed == objcBoxOf b.objcTypename

/-- C++/CLI: reference spelling; handle (`^`) iff not a value type -/
def Builtin.cliOK (b : Builtin) : Bool :=
  b.cliTypename == (refRow b).cli && b.cliReference == !cliValueTypes.contains b.cliTypename

end Pydjinni.Gen

namespace Pydjinni.Gen

mutual
/-- every built-in row mentioned in a type reference (at any depth, including function signatures) satisfies `p` -/
def RType.builtinsAll (p : Builtin → Bool) : RType → Bool
  | .mk d args _ => TDef.builtinsAll p d && builtinsAllL p args
def TDef.builtinsAll (p : Builtin → Bool) : TDef → Bool
  | .builtin b => p b
  | .user _ => true
  | .func _ _ _ params ret => builtinsAllL p params && builtinsAllO p ret
def builtinsAllL (p : Builtin → Bool) : List RType → Bool
  | [] => true
  | t :: ts => RType.builtinsAll p t && builtinsAllL p ts
def builtinsAllO (p : Builtin → Bool) : Option RType → Bool
  | none => true
  | some t => RType.builtinsAll p t
end

def TDef.isBuiltin : TDef → Bool
  | .builtin _ => true
  | _ => false

mutual
/-- generic arguments are only written on built-in (collection) types — what the front end's arity rule guarantees -/
def RType.genericsOk : RType → Bool
  | .mk d args _ => (args.isEmpty || d.isBuiltin) && TDef.genericsOk d && genericsOkL args
def TDef.genericsOk : TDef → Bool
  | .builtin _ => true
  | .user _ => true
  | .func _ _ _ params ret => genericsOkL params && genericsOkO ret
def genericsOkL : List RType → Bool
  | [] => true
  | t :: ts => RType.genericsOk t && genericsOkL ts
def genericsOkO : Option RType → Bool
  | none => true
  | some t => RType.genericsOk t
end

def fieldsAll (q : RType → Bool) (fs : List FieldD) : Bool := fs.all (fun f => q f.ty)

/-- every type written in the members of a declaration satisfies `q` -/
def Decl.typesAll (q : RType → Bool) : Decl → Bool
  | .enum _ _ | .flags _ _ => true
  | .record _ fields _ _ => fieldsAll q fields
  | .interface _ ms => ms.all (fun m => fieldsAll q m.params && (match m.ret with | some r => q r | none => true))
  | .function _ _ params ret _ => fieldsAll q params && (match ret with | some r => q r | none => true)
  | .error _ codes => codes.all (fun k => fieldsAll q k.params)

end Pydjinni.Gen
