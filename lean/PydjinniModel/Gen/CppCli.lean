import PydjinniModel.Gen.Types
/-!
# C++/CLI marshalling (`generator/cppcli/cppcli/type.py`) and what the C++/CLI header templates declare
-/
namespace Pydjinni.Gen

/-- `CppCliBaseType.namespace` -/
def cliNamespace (c : CliCfg) (ns : List String) : String :=
  joinS "::" (c.ns ++ ns.map (convert c.nsStyle))

/-- `CppCliBaseType.typename` / `CppCliRecord.typename`: `f"::{namespace}::{name}"` (also when the namespace is empty) -/
def cliUserTypename (c : CliCfg) (u : UInfo) : String :=
  "::" ++ cliNamespace c u.ns ++ "::" ++ convert c.tyStyle u.name

/-- `type_def.cppcli.reference` -/
def cliReference : TDef → Bool
  | .builtin b => b.cliReference
  | .user u => !(u.prim == .enum || u.prim == .flags)
  | .func _ _ _ _ _ => true

/-- the steps of `typename(type_ref)` on the name of the definition: `Nullable<>` for optional value types, generic
    arguments, the handle `^` for reference types -/
def cliShape (reference optional : Bool) (name : String) (args : List String) : String :=
  applyArgs (if optional && !reference then "System::Nullable<" ++ name ++ ">" else name) args ++ (if reference then "^" else "")

mutual
/-- `type_def.cppcli.typename` -/
def cliDefTypename (c : CliCfg) : TDef → String
  | .builtin b => b.cliTypename
  | .user u => cliUserTypename c u
  | .func u anonymous _ params ret =>
    if anonymous then
      match ret with
      | some r => "System::Func<" ++ joinS ", " (cliTypenames c params ++ [cliTypename c r]) ++ ">"
      | none => applyArgs "System::Action" (cliTypenames c params)
    else cliUserTypename c u
/-- module-level `typename(type_ref)` (synchronous) -/
def cliTypename (c : CliCfg) : RType → String
  | .mk d args optional => cliShape (cliReference d) optional (cliDefTypename c d) (cliTypenames c args)
def cliTypenames (c : CliCfg) : List RType → List String
  | [] => []
  | t :: ts => cliTypename c t :: cliTypenames c ts
end

/-- `typename(type_ref, asynchronous)` -/
def cliTypenameO (c : CliCfg) (t : Option RType) (async : Bool) : String :=
  match t with
  | some t => if async then "System::Threading::Tasks::Task<" ++ cliTypename c t ++ ">^" else cliTypename c t
  | none => if async then "System::Threading::Tasks::Task^" else "void"

/-- `type_def.cppcli.header` -/
def cliHeader (c : CliCfg) : TDef → String
  | .builtin _ => "pydjinni/cppcli/Marshal.hpp"
  | .user u =>
    let n := if u.prim == .record && u.targets.contains "cppcli" then u.name ++ "_base" else u.name
    joinS "/" (u.ns ++ [convert c.fileStyle n ++ ".hpp"])
  | .func u _ _ _ _ => joinS "/" (u.ns ++ [convert c.fileStyle u.name ++ ".hpp"])

/-! ## header skeleton -/

def cliAttr (c : CliCfg) (optional : Bool) : String :=
  if c.nullability then
    (if optional then "[System::Diagnostics::CodeAnalysis::AllowNull] " else "[System::Diagnostics::CodeAnalysis::DisallowNull] ")
  else ""

/-- a method / delegate / record-constructor parameter: nullability attribute, type, local name -/
def cliParam (c : CliCfg) (p : FieldD) : MemberS :=
  { ty := cliAttr c p.ty.optional ++ cliTypename c p.ty, name := convert c.localStyle p.name }

/-- error-code constructor parameters carry no attribute -/
def cliPlainParam (c : CliCfg) (p : FieldD) : MemberS :=
  { ty := cliTypename c p.ty, name := convert c.localStyle p.name }

def cliProperty (c : CliCfg) (f : FieldD) : MemberS :=
  { ty := cliTypename c f.ty, name := convert c.propertyStyle f.name }

def cliDeclName (c : CliCfg) (u : UInfo) : String :=
  if u.prim == .record && u.targets.contains "cppcli" then convert c.tyStyle (u.name ++ "_base") else convert c.tyStyle u.name

def cliMethod (c : CliCfg) (m : MethodD) : MethodS :=
  { pre := [if m.isStatic then "static" else "virtual"],
    ret := cliTypenameO c m.ret m.isAsync, name := convert c.methodStyle m.name,
    params := m.params.map (cliParam c), post := if m.isStatic then [] else ["abstract"] }

def cliCode (c : CliCfg) (k : CodeD) : CodeS :=
  { name := convert c.tyStyle k.name, fields := k.params.map (cliProperty c), ctor := k.params.map (cliPlainParam c) }

def cliSkel (c : CliCfg) : Decl → DeclS
  | .enum u items =>
    { DeclS.empty with
      kind := "enum", name := cliDeclName c u, scope := cliNamespace c u.ns, items := items.map (convert c.enumStyle) }
  | .flags u items =>
    { DeclS.empty with
      kind := "flags", name := cliDeclName c u, scope := cliNamespace c u.ns, items := items.map (fun f => convert c.enumStyle f.name) }
  | .record u fields _ _ =>
    { DeclS.empty with
      kind := "struct", name := cliDeclName c u, scope := cliNamespace c u.ns,
      mods := [if u.targets.contains "cppcli" then "abstract" else "sealed"],
      fields := fields.map (cliProperty c), ctor := fields.map (cliParam c) }
  | .interface u methods =>
    { DeclS.empty with
      kind := "class", name := cliDeclName c u, scope := cliNamespace c u.ns, mods := ["abstract"], methods := methods.map (cliMethod c) }
  | .function u anonymous params ret _ =>
    if anonymous then { DeclS.empty with kind := "none", scope := cliNamespace c u.ns }
    else
      { DeclS.empty with
        kind := "function", name := cliDeclName c u, scope := cliNamespace c u.ns,
        methods := [{ pre := [], ret := cliTypenameO c ret false, name := cliDeclName c u, params := params.map (cliParam c), post := [] }] }
  | .error u codes =>
    { DeclS.empty with
      kind := "error", name := cliDeclName c u, scope := cliNamespace c u.ns,
      codes := codes.map (cliCode c) }

end Pydjinni.Gen
