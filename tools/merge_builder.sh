#!/bin/bash
# merge_builder.sh <X> : merge branch agent-X of /verif and cherry-pick its /repo commits onto main
set -u
X=$1
cd /verif
git add -A; git commit -qm "wip before merging builder $X" 2>/dev/null
if ! git merge --no-edit agent-$X >/tmp/merge_$X.log 2>&1; then
  python3 - <<'PY'
import re
p=open('/verif/lean/PydjinniModel.lean').read()
lines=[]
for l in p.split('\n'):
    if l.startswith(('<<<<<<<','=======','>>>>>>>')): continue
    if l.strip() and l not in lines: lines.append(l)
open('/verif/lean/PydjinniModel.lean','w').write('\n'.join(lines)+'\n')
PY
  if git diff --name-only --diff-filter=U | grep -v "lean/PydjinniModel.lean" | grep .; then echo "OTHER CONFLICTS"; exit 1; fi
  git add -A; git commit -qm "merge builder $X"
fi
cd /repo
for c in $(git log --reverse --format=%h main..agent-$X); do
  if ! git cherry-pick $c >/tmp/cp_$X.log 2>&1; then echo "CHERRY-PICK CONFLICT at $c: $(git log --format=%s -1 $c)"; git status --short | head; exit 2; fi
done
/venv/bin/python -m pytest -q -p no:cacheprovider tests 2>&1 | tail -1
cd /verif && python3 tools/rehash_findings.py agent-$X | tail -3
