"""Developer tool: run a check module once and save the first failing input per shape key under findings/reproduced/
(used before a `fix:` commit to keep the reproducing replay of each defect). Usage: collect_repro.py Cxx [key-prefix]"""
import sys, json, os, io, contextlib, re
from pathlib import Path
sys.path.insert(0, str(Path(__file__).resolve().parent.parent / "harness"))
import common
common.use_repo()
import importlib
pid = sys.argv[1].upper()
only = sys.argv[2] if len(sys.argv) > 2 else ""
mod = importlib.import_module(f"props.{pid.lower()}")
ctx = common.Ctx(pid, os.environ.get("VERIF_TIER", "quick"), int(os.environ.get("VERIF_SEED", "0")))
first = {}
orig = ctx.report
def report(key, what, replay, no_failing_input=False):
    if key not in first and not no_failing_input:
        first[key] = {"property": pid, "tier": ctx.tier, "seed": ctx.seed, "key": key, "what": what, "no_failing_input_found": False, **replay}
    return orig(key, what, replay, no_failing_input)
ctx.report = report
with contextlib.redirect_stdout(io.StringIO()):
    mod.run(ctx)
ctx.cleanup()
out = common.FINDINGS / "reproduced"
out.mkdir(exist_ok=True)
for key, body in first.items():
    if only and not key.startswith(only):
        continue
    name = f"{pid}_{re.sub('[^A-Za-z0-9]+', '_', key)}.json"
    (out / name).write_text(json.dumps(body, indent=1, default=str))
    print("saved", name)
