#!/bin/bash
# try_mutant.sh <patch.diff> <prop> [<prop>...] | all : apply a patch to a scratch worktree of /repo and run checks
# against it (evidence and replays go to a scratch directory, /verif/evidence is untouched)
set -u
PATCH=$(readlink -f "$1"); shift
[ "$1" = all ] && set -- C01 C02 C03 C04 C05 C06 C07 C08 C09 C10 C11 C12 C13 C14 C15 C16 C17 C18 C19 C20
WT=/tmp/mutwt_$$; EV=/tmp/mutev_$$
git -C /repo worktree add -q --detach $WT >/dev/null 2>&1
if ! git -C $WT apply "$PATCH"; then echo "PATCH DOES NOT APPLY"; git -C /repo worktree remove --force $WT; exit 3; fi
for p in "$@"; do
  VERIF_REPO=$WT VERIF_EVIDENCE=$EV /verif/check $p 2>&1 | grep -E "^VIOLATION|rc=|INFRA|TIMEOUT" | head -3
done
git -C /repo worktree remove --force $WT; rm -rf $EV
