#!/bin/bash
# try_mutant.sh <patch.diff> <prop> [<prop>...] : apply a patch to a scratch worktree of /repo and run checks against it
set -u
PATCH=$1; shift
WT=/tmp/mutwt_$$
git -C /repo worktree add -q --detach $WT >/dev/null 2>&1
if ! git -C $WT apply "$PATCH"; then echo "PATCH DOES NOT APPLY"; git -C /repo worktree remove --force $WT; exit 3; fi
for p in "$@"; do
  VERIF_REPO=$WT VERIF_TMP=/tmp /verif/check $p 2>&1 | grep -E "VIOLATION|rc=|INFRA|KNOWN" | head -4
done
git -C /repo worktree remove --force $WT
