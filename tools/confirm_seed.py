#!/usr/bin/env python3
"""confirm_seed.py <dir with patch.diff, demo.py[, notes.md]> <seed-id> <property> [<other properties to run>...]

Confirms a seeded change in a scratch worktree of /repo (demo passes without / fails with the patch, the 145
tests pass with it), runs the named checks against the patched worktree (evidence goes to a scratch dir), and
writes /verif/seeded/<seed-id>/{patch.diff, demo.py, notes.md, meta.json}."""
import json, os, shutil, subprocess, sys, tempfile
from pathlib import Path

src, sid, prop, *others = sys.argv[1:]
src = Path(src)
wt = Path(tempfile.mkdtemp(prefix="seedwt_"))
ev = Path(tempfile.mkdtemp(prefix="seedev_"))
subprocess.run(["git", "-C", "/repo", "worktree", "add", "-q", "--detach", str(wt / "repo")], check=True)
repo = wt / "repo"
env = dict(os.environ, REPO=str(repo), PYTHONPATH=str(repo / "src"))
meta = {"seed": sid, "breaks_property": prop, "repo_commit": subprocess.run(["git", "-C", "/repo", "rev-parse", "--short", "HEAD"], capture_output=True, text=True).stdout.strip()}
try:
    demo = src / "demo.py"
    r0 = subprocess.run(["/venv/bin/python", str(demo)], env=env, capture_output=True, text=True, timeout=600)
    meta["demo_without_patch_rc"] = r0.returncode
    ap = subprocess.run(["git", "-C", str(repo), "apply", str(src / "patch.diff")], capture_output=True, text=True)
    meta["patch_applies"] = ap.returncode == 0
    if ap.returncode != 0:
        print("patch does not apply:", ap.stderr)
    else:
        t = subprocess.run(["/venv/bin/python", "-m", "pytest", "-q", "-p", "no:cacheprovider", "tests"], cwd=repo, env=env, capture_output=True, text=True, timeout=900)
        meta["tests_with_patch"] = t.stdout.strip().split("\n")[-1]
        r1 = subprocess.run(["/venv/bin/python", str(demo)], env=env, capture_output=True, text=True, timeout=600)
        meta["demo_with_patch_rc"] = r1.returncode
        meta["demo_with_patch_tail"] = (r1.stdout + r1.stderr)[-600:]
        meta["checks"] = {}
        for p in [prop] + others:
            c = subprocess.run(["/verif/check", p], env=dict(os.environ, VERIF_REPO=str(repo), VERIF_EVIDENCE=str(ev)), capture_output=True, text=True, timeout=1800)
            lines = [l for l in c.stdout.split("\n") if l.startswith(("VIOLATION", "KNOWN-FINDING", "INFRA", "TIMEOUT"))]
            first = None
            rp = sorted((ev / "replays" / p).glob("*.json")) if (ev / "replays" / p).exists() else []
            if rp:
                b = json.loads(rp[0].read_text())
                first = {"key": b.get("key"), "what": b.get("what"), "no_failing_input_found": b.get("no_failing_input_found")}
            meta["checks"][p] = {"rc": c.returncode, "violation_lines": len([l for l in lines if l.startswith("VIOLATION")]), "first_replay": first,
                                 "summary": c.stdout.strip().split("\n")[-1]}
finally:
    subprocess.run(["git", "-C", "/repo", "worktree", "remove", "--force", str(repo)])
    shutil.rmtree(wt, ignore_errors=True)
    shutil.rmtree(ev, ignore_errors=True)
confirmed = meta.get("demo_without_patch_rc") == 0 and meta.get("patch_applies") and "145 passed" in meta.get("tests_with_patch", "") and meta.get("demo_with_patch_rc", 0) != 0
meta["confirmed"] = bool(confirmed)
notes = (src / "notes.md").read_text() if (src / "notes.md").exists() else ""
meta["needs_to_manifest"] = notes[:1500]
meta["ran"] = f"tools/confirm_seed.py {src} {sid} {prop} {' '.join(others)}"
print(json.dumps({k: v for k, v in meta.items() if k != "needs_to_manifest"}, indent=1))
if confirmed:
    dst = Path("/verif/seeded") / sid
    dst.mkdir(parents=True, exist_ok=True)
    shutil.copy(src / "patch.diff", dst / "patch.diff")
    shutil.copy(src / "demo.py", dst / "demo.py")
    if notes:
        (dst / "notes.md").write_text(notes)
    (dst / "meta.json").write_text(json.dumps(meta, indent=1))
