"""Mutation campaign for the C02 / C07 checks: applies one small change at a time to a *worktree* of the repository
(never /repo itself), runs the check, prints verdict + first failing input, and restores the file with git.

    VERIF_REPO=/work/D/repo /venv/bin/python tools/mutations_c02_c07.py C02|C07 [name prefix]
"""
import subprocess, sys, json, re, glob, os
from pathlib import Path
REPO = os.environ["VERIF_REPO"]; VERIF = str(Path(__file__).resolve().parent.parent)
assert os.path.realpath(REPO) != "/repo", "run against a worktree, not /repo"
G='src/pydjinni/generator/'
MUTS = {
 'C02': [
  ('M1 optional interface wrapped in std::optional', G+'cpp/cpp/type.py', "            elif type_ref.optional and not type_ref.type_def.primitive == BaseExternalType.Primitive.function:\n                output = f\"std::optional<{output}>\"", "            if type_ref.optional and not type_ref.type_def.primitive == BaseExternalType.Primitive.function:\n                output = f\"std::optional<{output}>\""),
  ('M2 C++ interface template: parameters reversed', G+'cpp/cpp/templates/header/interface.jinja2.hpp', "/*>- for parameter in method.parameters -*/", "/*>- for parameter in method.parameters | reverse -*/"),
  ('M3 camelCase capitalises first token', 'src/pydjinni/parser/identifier.py', "case (IdentifierStyle.Case.camel, True) | (IdentifierStyle.Case.snake, True | False) | (", "case (IdentifierStyle.Case.snake, True | False) | ("),
  ('M4 table: i32 -> int64_t in C++', G+'cpp/cpp/external_types.py', '"i32": CppExternalType(typename="int32_t"', '"i32": CppExternalType(typename="int64_t"'),
  ('M5 Java generic arguments not boxed', G+'java/java/type.py', "self.compute_data_type(parameter, boxed=True) for parameter in type_ref.parameters", "self.compute_data_type(parameter, boxed=False) for parameter in type_ref.parameters"),
  ('M6 ObjC interface parameter keeps pointer', G+'objc/objc/type.py', "                typename = f\"id<{typename}>\"\n                pointer = False", "                typename = f\"id<{typename}>\""),
  ('M7 C++/CLI Nullable for reference types', G+'cppcli/cppcli/type.py', "if type_ref.optional and not type_ref.type_def.cppcli.reference:", "if type_ref.optional:"),
  ('M8 Java record template: constructor parameters reversed', G+'java/java/templates/record.jinja2.java', "    public {{ type_def.java.name }}(\n    //> for field in type_def.fields:", "    public {{ type_def.java.name }}(\n    //> for field in type_def.fields | reverse:"),
  ('M9 noexcept dropped from postfix specifiers', G+'cpp/cpp/type.py', "            if self.noexcept:\n                specifiers += \" noexcept\"", "            if False:\n                specifiers += \" noexcept\""),
  ('M10 table: Java boxed of i32 is Long', G+'java/java/external_types.py', 'typename="int", boxed="Integer"', 'typename="int", boxed="Long"'),
  ('M11 prefix appended instead of prepended', 'src/pydjinni/parser/identifier.py', 'output = f"{style.prefix}{output}"', 'output = f"{output}{style.prefix}"'),
  ('M12 C++/CLI enum template skips first item', G+'cppcli/cppcli/templates/header/enum.jinja2.hpp', "//> for item in type_def.items:", "//> for item in type_def.items[1:]:"),
  ('H1 harmless: join instead of accumulation loop', G+'cpp/cpp/type.py', "                parameter_output = \"\"\n                for parameter in type_ref.parameters:\n                    if parameter_output:\n                        parameter_output += \", \"\n                    parameter_output += self._type_specifier(parameter)\n", "                parameter_output = \", \".join(self._type_specifier(parameter) for parameter in type_ref.parameters)\n"),
  ('H2 harmless: Java record template re-indented, loop variable renamed', G+'java/java/templates/record.jinja2.java', "//> for field in type_def.fields\n    {{ field.java.field_modifier ~ field.java.data_type }} {{ field.java.name }};\n//> endfor", "//> for fld in type_def.fields\n        {{ fld.java.field_modifier ~ fld.java.data_type }}   {{ fld.java.name }};\n//> endfor"),
  ('H3 harmless: convert tokens in one comprehension', 'src/pydjinni/parser/identifier.py', "        converted_tokens = [convert_token(tokens[0], identifier_style.style, first=True)]\n        converted_tokens += [convert_token(token, identifier_style.style) for token in tokens[1:]]", "        converted_tokens = [convert_token(token, identifier_style.style, first=(i == 0)) for i, token in enumerate(tokens)]"),
 ],
 'C07': [
  ('N1 unboxed descriptor for optional parameters', G+'java/jni/type.py', "        if parameter.type_ref.optional:\n            parameter_type_signatures += parameter.type_ref.type_def.jni.boxed_type_signature", "        if False:\n            parameter_type_signatures += parameter.type_ref.type_def.jni.boxed_type_signature"),
  ('N2 underscore not escaped', G+'java/jni/type.py', 'return segment.replace("_", "_1").replace("$", "_00024")', 'return segment.replace("$", "_00024")'),
  ('N3 table: i32 type signature J', G+'java/jni/external_types.py', 'type_signature="I",', 'type_signature="J",'),
  ('N4 interface registers $Proxy instead of $CppProxy', G+'java/jni/templates/source/interface.jinja2.cpp', '"{{ type_def.jni.class_descriptor }}$CppProxy"', '"{{ type_def.jni.class_descriptor }}$Proxy"'),
  ('N5 get_typename ignores optional', G+'java/jni/type.py', "        if type_ref.optional and type_ref.type_def.jni.typename not in [NativeType.string, NativeType.byte_array]:\n            return NativeType.object", "        if False:\n            return NativeType.object"),
  ('N6 async return descriptor is Future', G+'java/jni/type.py', 'return_type_signature = "Ljava/util/concurrent/CompletableFuture;"', 'return_type_signature = "Ljava/util/concurrent/Future;"'),
  ('N7 record field looked up by JNI field name', G+'java/jni/templates/header/record.jinja2.hpp', 'jniGetFieldID(clazz.get(), "{{ field.java.name }}"', 'jniGetFieldID(clazz.get(), "{{ field.jni.name }}"'),
  ('N8 error code constructor descriptor without message', G+'java/jni/templates/header/error_domain.jinja2.hpp', "    Ljava/lang/String;)V\") };", "    )V\") };"),
  ('N9 Java proxy native method renamed', G+'java/java/templates/interface.jinja2.java', "private native {{ method.java.return_type }} native_{{ method.java.name }}(", "private native {{ method.java.return_type }} nativ_{{ method.java.name }}("),
  ('N10 table: jni typename of f32 is jdouble', G+'java/jni/external_types.py', "typename=NativeType.float,", "typename=NativeType.double,"),
  ('H1 harmless: jni_prefix as one expression', G+'java/jni/type.py', 'return "_".join(["Java"] + [jni_escape(segment) for segment in segments])', 'return "Java_" + "_".join(map(jni_escape, segments))'),
  ('H2 harmless: record header declares field ids before the constructor id', G+'java/jni/templates/header/record.jinja2.hpp', None, None),
 ],
}
def run(pid, only=None):
    for name, f, old, new in MUTS[pid]:
        if only and not name.startswith(only): continue
        p=f'{REPO}/{f}'
        s=open(p).read()
        if old is None:
            # move the jconstructor line(s) after the field loop
            m=re.search(r'(    const jmethodID jconstructor .*?\)V"\) \};\n)(    //> for field in type_def.fields:\n.*?//> endfor\n)', s, re.S)
            assert m, name
            s2=s[:m.start()]+m.group(2)+m.group(1)+s[m.end():]
        else:
            assert s.count(old)==1, (name, s.count(old))
            s2=s.replace(old,new)
        open(p,'w').write(s2)
        try:
            r=subprocess.run([f'{VERIF}/check', pid], env={**__import__('os').environ, 'VERIF_REPO': REPO}, capture_output=True, text=True, timeout=900)
            lines=[l for l in r.stdout.split('\n') if l.startswith('VIOLATION') or l.startswith('INFRA')]
            first=''
            if lines and lines[0].startswith('VIOLATION'):
                rp=lines[0].split('replay=')[1].split()[0]
                b=json.load(open(rp))
                inp=b.get('input') or b.get('first') or {}
                first=f"{b['key']} | {b['what'][:110]} | input={json.dumps(inp)[:160]}" + (' [no-failing-input-found]' if 'no-failing-input-found' in lines[0] else '')
            elif lines: first=lines[0][:300]
            print(f"{pid} {name}: rc={r.returncode} violations={len(lines)} :: {first}", flush=True)
        finally:
            subprocess.run(['git','-C',REPO,'checkout','--','.'],check=True)
if __name__=='__main__':
    run(sys.argv[1], sys.argv[2] if len(sys.argv)>2 else None)
