#!/usr/bin/env python3
"""After cherry-picking a builder's /repo commits onto main, rewrite the commit hashes in findings/*.json and manifest.d/hooks.json
(matching commits by subject line). usage: rehash_findings.py <branch>"""
import json, subprocess, sys, re
from pathlib import Path
branch = sys.argv[1]
def log(rev):
    out = subprocess.run(["git", "-C", "/repo", "log", "--format=%h\t%s", rev], capture_output=True, text=True).stdout.strip().split("\n")
    return [l.split("\t", 1) for l in out if l]
old = {s: h for h, s in log(f"main..{branch}")} | {s: h for h, s in log(f"{branch}") if s.startswith(("fix:", "hook:"))}
new = {s: h for h, s in log("main")}
mapping = {old[s]: new[s] for s in old if s in new and old[s] != new[s]}
print(mapping)
for f in list(Path("/verif/findings").glob("*.json")) + list(Path("/verif/manifest.d").glob("*.json")):
    t = f.read_text(); t2 = t
    for o, n in mapping.items():
        t2 = t2.replace(o, n)
    if t2 != t:
        f.write_text(t2); print("rewrote", f)
