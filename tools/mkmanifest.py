#!/usr/bin/env python3
"""Assemble /verif/MANIFEST.json from manifest.d/Cxx.json fragments (one per claimed property)
and manifest.d/not_applicable.json. Run after editing a fragment."""
import json
from pathlib import Path

V = Path(__file__).resolve().parent.parent
ids = [json.loads(l)["id"] for l in (V / "properties.jsonl").read_text().splitlines() if l.strip()]
checks, na = [], []
na_file = V / "manifest.d" / "not_applicable.json"
na_reasons = json.loads(na_file.read_text()) if na_file.exists() else {}
for pid in ids:
    f = V / "manifest.d" / f"{pid}.json"
    if f.exists():
        c = json.loads(f.read_text())
        c.setdefault("property_id", pid)
        c.setdefault("quick_cmd", f"./check {pid} --tier quick")
        c.setdefault("thorough_cmd", f"./check {pid} --tier thorough")
        c.setdefault("evidence_file", f"evidence/{pid}.json")
        c.setdefault("replay_cmd_template", f"./check {pid} --replay {{path}}")
        c.setdefault("engine", "lean-model+correspondence")
        checks.append(c)
    else:
        na.append({"property_id": pid, "reason": na_reasons.get(pid, "check not built yet in this round (planned, see DESIGN.md section 5)")})
hooks_commits = json.loads((V / "manifest.d" / "hooks.json").read_text()) if (V / "manifest.d" / "hooks.json").exists() else []
m = {
    "version": 1,
    "setup_cmd": "./setup.sh",
    "hooks": {
        "guard": "PYDJINNI_VERIF",
        "enable": "checks export PYDJINNI_VERIF=1 and put /repo/src first on sys.path / PYTHONPATH (harness/common.py use_repo, Ctx.child_env)",
        "baseline_off_cmd": "cd /repo && env -u PYDJINNI_VERIF /venv/bin/python -m pytest -ra -q -p no:cacheprovider --timeout=900 --continue-on-collection-errors tests",
        "source_commits": hooks_commits,
        "add_only": True,
    },
    "engines": [
        {"name": "lean-model+correspondence", "path": "lean/ (Lean 4 project PydjinniModel: models, theorems, driver) + harness/ (translator, correspondence, failing-input search)",
         "serves_properties": [c["property_id"] for c in checks],
         "kind_free_text": "machine-checked proof in Lean 4 about executable models; models tied to /repo on every run by a translator (generated tables with kernel-checked obligations) and by a differential correspondence check against the real code"}
    ],
    "checks": checks,
    "not_applicable": na,
    "notes": "Every check: lake build (no-op when unchanged) -> #print axioms audit of the property's theorems -> translator obligations -> correspondence run against /repo -> specification predicate on the implementation's observations -> evidence. Exit 2 = infrastructure failure/timeout, never a verdict.",
}
(V / "MANIFEST.json").write_text(json.dumps(m, indent=1) + "\n")
print("checks:", [c["property_id"] for c in checks], "not_applicable:", [n["property_id"] for n in na])
