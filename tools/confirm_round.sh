#!/bin/bash
# confirm_round.sh <suffix e.g. r3> : confirm every finished /tmp/mut/<Cxx><suffix>/out/mN that is not archived yet
SUF=$1
for d in /tmp/mut/C??$SUF/out/m?; do
  [ -f $d/patch.diff -a -f $d/demo.py ] || continue
  p=$(basename $(dirname $(dirname $d))); p=${p%$SUF}; m=$(basename $d); id=${p}_${SUF}$m
  [ -d /verif/seeded/$id ] && continue
  timeout 3000 python3 /verif/tools/confirm_seed.py $d $id $p 2>&1 | python3 -c "
import sys,json,re
txt=sys.stdin.read()
for blob in re.findall(r'\{\n.*?\n\}\n', txt, re.S):
    try: d=json.loads(blob)
    except Exception: continue
    print(d['seed'], 'confirmed' if d['confirmed'] else 'NOT CONFIRMED', d.get('tests_with_patch','')[:12], {k:(v['rc'],v['first_replay']['key'] if v['first_replay'] else None, v['first_replay'].get('no_failing_input_found') if v['first_replay'] else None) for k,v in d.get('checks',{}).items()})
"
done
